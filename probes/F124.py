# probe F124 (properties C20): exits 1 while the defect is present, 0 when it is gone
"""Negative relaxation TIMES (T1, T2 in ms) are accepted and simulated: decay turns into amplification (|F| > 1).
Only the time `tau` is checked ("Cannot have negative time"): E(-10, 1000, 10) is rejected, but E(10, 1000, -10)
builds exactly the operator that the rejected E(-10, -1000, 10) would build (tau/T2 = -1). Same for an array entry,
for X(.., T1=, T2=), and for modify(seq, T2=...). Ground truth: the property (negative times are rejected, for any
position in an array argument), and the physical bound |F| <= 1 for relaxation; T1 = T2 = inf is the valid boundary."""
import sys, warnings
import numpy as np
import epgpy as epg

warnings.simplefilter("ignore")
sm = epg.S(1)(epg.T(90, 90)(epg.StateMatrix()))  # |F+1| = 1
try:
    epg.E(-10, -1000, 10)
except ValueError as exc:
    print(f"E(-10, -1000, 10): ValueError({exc})   <- same rates tau/T1, tau/T2 as E(10, 1000, -10)")

seq = [epg.T(90, 90), epg.S(1, duration=10), epg.Adc("F")]
cases = {
    "E(10, 1000, -10)              ": lambda: epg.E(10, 1000, -10)(sm),
    "E(10, -1000, 100)             ": lambda: epg.E(10, -1000, 100)(sm),
    "E(10, 1000, [10, -10])        ": lambda: epg.E(10, 1000, [10, -10])(sm),
    "X(10, 0.05, T2=[10, -5])      ": lambda: epg.X(10, 0.05, T2=[10, -5])(sm),
    "X(10, 0.05, T1=[-100, 100])   ": lambda: epg.X(10, 0.05, T1=[-100, 100])(epg.T(90, 90)(epg.StateMatrix())),
    "modify(seq, T1=1e3, T2=-10)   ": lambda: epg.simulate(epg.modify(seq, T1=1e3, T2=-10)),
}
bad = False
for label, func in cases.items():
    try:
        out = func()
    except Exception as exc:
        print(f"{label}: rejected, {type(exc).__name__}: {exc} -> fine")
        continue
    if isinstance(out, epg.StateMatrix):
        msg = f"max|F| = {np.abs(out.F).max():.4f}, Z0 = {np.round(np.ravel(out.Z0.real), 4)} (Z0 was 0, equilibrium is 1)"
    else:
        msg = f"max|F| = {np.abs(out).max():.4f}"
    print(f"{label}: ACCEPTED and simulated, {msg}  (expected: exception; relaxation gives |F| <= 1, 0 <= Z0 <= 1)")
    bad = True

# adjacent valid boundary: infinite relaxation times (no relaxation) are accepted and leave the state unchanged
out = epg.E(10, np.inf, np.inf)(sm)
ok = np.allclose(out.states, sm.states)
print(f"E(10, inf, inf): accepted, identity: {ok}")
sys.exit(1 if (bad or not ok) else 0)
