# probe F64 (properties C18): exits 1 while the defect is present, 0 when it is gone
"""RFPulse(values, duration, rf=array) (rf only, no alpha): estimate_alpha does not handle an rf array.
It raises unless len(rf) == len(values), in which case rf is paired with the SAMPLES and .alpha is wrong."""
import sys
import numpy as np
import epgpy as epg
from epgpy import rfpulse

values = np.array([0.3, 0.8j, -0.6, 0.4 + 0.4j, 0.2])
ok = True

# 1. batch of 3 rf amplitudes: must be the 3 scalar pulses side by side
rfs = np.array([0.3, 0.6, 0.9])
ref = np.array([rfpulse.RFPulse(values, 2.0, rf=r)(epg.StateMatrix()).states[0, 0] for r in rfs])
print("ground truth (3 scalar pulses):\n", np.round(ref, 4))
try:
    obs = rfpulse.RFPulse(values, 2.0, rf=rfs)(epg.StateMatrix()).states[:, 0]
    print("observed:\n", np.round(obs, 4))
    ok &= np.allclose(obs, ref)
except Exception as exc:
    print("observed: RFPulse(values, 2.0, rf=[0.3, 0.6, 0.9]) raises", type(exc).__name__, exc)
    ok = False
# the same batch is accepted (and right) when alpha is also passed, so rf arrays are supported
obs = rfpulse.RFPulse(values, 2.0, rf=rfs, alpha=0)(epg.StateMatrix()).states[:, 0]
print("with a dummy alpha= the batch works:", np.allclose(obs, ref))

# 2. len(rf) == len(values): no exception, rf[i] is multiplied into sample i
rfs = np.linspace(0.1, 0.5, len(values))
pulse = rfpulse.RFPulse(values, 2.0, rf=rfs)
expected = np.array([rfpulse.estimate_alpha(values, r) for r in rfs])
print("pulse.alpha observed :", pulse.alpha)
print("pulse.alpha expected :", np.round(expected, 4), "(one flip angle per rf entry)")
ok &= np.shape(pulse.alpha) == expected.shape and np.allclose(pulse.alpha, expected)

print("OK" if ok else "DEFECT")
sys.exit(0 if ok else 1)
