# probe F136 (properties C10, C09): exits 1 while the defect is present, 0 when it is gone
"""6d12358: MultiOperator.copy() shares the (array) duration with the original:
appending to the copy changes the duration of the original multi-operator."""
import sys
import numpy as np
from epgpy import operators as ops

tau = np.array([5.0, 10.0])
relax = ops.E(tau, 1000.0, 100.0, duration=True)  # documented: duration=True -> duration = tau
block = ops.MultiOperator([relax, ops.T(180, 0), relax])  # total duration [10, 20]
expected = 2 * tau
before = np.array(block.duration, dtype=float)

new = block.copy(name="block+wait")
new.append(ops.Wait(1.0))  # extends the copy only

observed = np.asarray(block.duration, dtype=float)
print("original duration before copy/append:", before)
print("original duration after appending Wait(1) to its copy:")
print("  observed:", observed, " expected:", expected)
print("copy duration:", np.asarray(new.duration), " expected:", expected + 1)
print("len(original) =", len(block), "len(copy) =", len(new))

bad = (
    not np.allclose(before, expected)
    or not np.allclose(observed, expected)
    or not np.allclose(new.duration, expected + 1)
    or len(block) != 3
    or len(new) != 4
)
print("PROBLEM PRESENT" if bad else "ok")
sys.exit(1 if bad else 0)
