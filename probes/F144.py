# probe F144 (properties C02, C03): exits 1 while the defect is present, 0 when it is gone
"""b6b3706 incomplete: E still evaluates the powers of T1/T2/tau in the integer dtype when the
values are numpy integer *scalars* or 0-d arrays (an element T1map[i] of an int16/int32 map)."""
import sys
import numpy as np
from epgpy import operators as ops, functions

VARS = ["tau", "T1", "T2"]


def run(tau, T1, T2):
    seq = [ops.T(60, 90), ops.E(tau, T1, T2, order1=True, order2=True), ops.T(60, 90), ops.ADC]
    probe = [ops.ADC, ops.Jacobian(VARS), ops.Hessian(VARS)]
    return [np.asarray(x).squeeze() for x in functions.simulate(seq, probe=probe)]


ref = run(10.0, 1000.0, 100.0)
T1map = np.array([1000, 1200], dtype=np.int16)  # relaxation-time maps stored as integers
T2map = np.array([100, 80], dtype=np.int16)
cases = {
    "1-d int16 maps (repaired form), voxel 0": lambda: [x[0] for x in run(10, T1map, T2map)],
    "np.int16 scalars T1map[0], T2map[0]": lambda: run(np.int16(10), T1map[0], T2map[0]),
    "np.int32 scalars": lambda: run(np.int32(10), np.int32(1000), np.int32(100)),
    "0-d int32 arrays": lambda: run(np.array(10, dtype=np.int32), np.array(1000, dtype=np.int32), np.array(100, dtype=np.int32)),
}
bad = 0
for name, call in cases.items():
    sig, jac, hes = call()
    ejac = np.abs(jac - ref[1]).max() / np.abs(ref[1]).max()
    ehes = np.abs(hes - ref[2]).max() / np.abs(ref[2]).max()
    ok = np.allclose(sig, ref[0]) and ejac < 1e-9 and ehes < 1e-9
    bad += not ok
    print(f"{name}: rel. error Jacobian {ejac:.2e}, Hessian {ehes:.2e} (expected ~0) -> {'ok' if ok else 'WRONG'}")
print("expected: same Jacobian/Hessian as E(10.0, 1000.0, 100.0) for every integer form")
sys.exit(1 if bad else 0)
