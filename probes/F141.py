# probe F141 (properties C02, C07, C19): exits 1 while the defect is present, 0 when it is gone
"""06ccb96: simulate(init=<StateMatrix carrying partials>) with a batched sequence.
The initial state matrix is now broadcast to the sequence shape but its partials are not:
the first differentiated operator (or a Jacobian probe placed first) raises.
Ground truth: one scalar simulation per batch index (same initial state matrix)."""
import sys
import numpy as np
from epgpy import operators as op, functions as fn, statematrix as stm

sm = stm.StateMatrix([0, 0, 1])
sm = op.T(30, 90, order1="alpha")(sm)
sm = op.E(5, 1000, 50, order1="T2")(sm)  # sm carries d/dalpha and d/dT2
J = op.Jacobian(["magnitude", "alpha", "T2"])
B = [10, 20, 30]


def seq1(b):  # unbatched differentiated operators first, batch axis introduced later
    return [op.T(30, 90, order1="alpha"), op.E(5, 1000, 50, order1="T2"), op.T(b, 0), op.E(5, 1000, 50, order1="T2"), J]


def seq2(b):  # Jacobian probe before any operator
    return [J, op.T(b, 0, order1="alpha"), op.E(5, 1000, 50, order1="T2"), J]


failed = False
for name, seq in [("diff. operator first", seq1), ("Jacobian probe first", seq2)]:
    expected = np.stack([np.asarray(fn.simulate(seq(b), init=sm))[:, 0] for b in B], axis=1)
    try:
        observed = np.asarray(fn.simulate(seq(B), init=sm))
        ok = observed.shape == expected.shape and np.allclose(observed, expected)
        print(f"{name}: observed shape {observed.shape}, expected {expected.shape}, match: {ok}")
        if not ok:
            print(" observed:", np.round(observed.ravel()[:9], 5), "\n expected:", np.round(expected.ravel()[:9], 5))
    except Exception as exc:
        ok = False
        print(f"{name}: observed {type(exc).__name__}: {exc}")
        print(f" expected Jacobian of shape {expected.shape}, e.g. last probe:\n{np.round(expected[-1], 5)}")
    failed |= not ok
sys.exit(1 if failed else 0)
