# probe F112 (properties C10): exits 1 while the defect is present, 0 when it is gone
"""'@' of an operand with automatic cross derivatives (order2='phi') and an operand with an explicit pair
selection (order2=[('T1','T1')], which per the docs "deactivates the automatic cross-operator calculation"):
the combined operator carries ONE flag (auto_cross_derivatives = any(...)), so the explicit operand's T1 is
crossed with the variables already carried by the state matrix, but not with the variables of the operands
combined before it.  The (T1, phi) partial it produces is neither the one of the operands applied in order
(exact here: finite differences agree) nor the full cross term."""
import sys, warnings
import numpy as np
from epgpy import operators as ops, functions

warnings.simplefilter("ignore")
T, E, S, ADC, Hessian = ops.T, ops.E, ops.S, ops.ADC, ops.Hessian
phi, T1 = 20.0, 300.0


def pulses(p, t1, declare=True):
    kp = {"order2": "phi"} if declare else {}  # automatic crosses
    kt = {"order1": "T1", "order2": [("T1", "T1")]} if declare else {}  # explicit selection: diagonal only
    exc, ref = T(60, p, **kp), T(120, p + 90, **kp)  # both pulses follow the common phase offset phi
    rlx = E(50, t1, 80, 0.004, **kt)
    return exc, rlx, ref, T(70, 0)  # the last pulse (read-out) has a fixed phase


hes = Hessian(["phi", "T1"])
exc, rlx, ref, read = pulses(phi, T1)
flat = functions.simulate([exc, rlx, ref, rlx, read, ADC], probe=hes)[0, 0]
comb = functions.simulate([exc, rlx, ref @ rlx, read, ADC], probe=hes)[0, 0]
comb2 = functions.simulate([exc, rlx, (ref @ rlx) @ read, ADC], probe=hes)[0, 0]


def f0(p, t1):  # plain simulation, no derivatives
    exc, rlx, ref, read = pulses(p, t1, declare=False)
    return functions.simulate([exc, rlx, ref, rlx, read, ADC])[0, 0]


hp, ht = 1e-2, 1e-1  # central finite differences
fd = (f0(phi + hp, T1 + ht) - f0(phi + hp, T1 - ht) - f0(phi - hp, T1 + ht) + f0(phi - hp, T1 - ht)) / (4 * hp * ht)
print("d2F0/dphi dT1  finite differences       :", fd)
print("               [.., ref, rlx, read]     :", flat[0, 1])
print("               [.., ref @ rlx, read]    :", comb[0, 1])
print("               [.., (ref @ rlx) @ read] :", comb2[0, 1])
ok = np.isclose(flat[0, 1], fd, rtol=1e-3, atol=1e-12)
ok &= np.allclose(comb, flat, rtol=1e-8, atol=1e-14) and np.allclose(comb2, flat, rtol=1e-8, atol=1e-14)
print("OK" if ok else "MISMATCH")
sys.exit(0 if ok else 1)
