# probe F46 (properties C16): exits 1 while the defect is present, 0 when it is gone
"""ArrayCollection.copy() shares the set of linked collections with the original: the copy drives the shape of
the original's linked collections, and link() on the copy also links the original."""
import sys
import numpy as np
from epgpy.statematrix import ArrayCollection

bad = 0
orig, linked = ArrayCollection(), ArrayCollection()
orig.set("x", np.zeros((2, 3)))
orig.link(linked)
linked.set("y", np.ones((2, 3)))
print("before: orig", orig.shape, "linked", linked.shape)

copy = orig.copy()
copy.set("big", np.zeros((5, 1, 1)))  # history applied to the copy only
print(f"after copy.set(big): orig {orig.shape}, linked {linked.shape} (expected (2, 3): must follow orig), copy {copy.shape}")
bad += tuple(linked.shape) != tuple(orig.shape)
print(f"  linked.get('y').shape: observed {linked.get('y').shape}, expected (2, 3)")

other = ArrayCollection()
copy.link(other)  # must not modify the original
orig.set("z", np.zeros((7, 1, 1)))
print(f"after copy.link(other); orig.set(z): other {other.shape}, expected {copy.shape} (linked to the copy only)")
bad += tuple(other.shape) != tuple(copy.shape)

sys.exit(1 if bad else 0)
