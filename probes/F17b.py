# probe F17b (properties C07): exits 1 while the defect is present, 0 when it is gone
"""C07 defect 1: Sequence.jacobian / hessian with an array-valued coefficient (flip-angle list x scalar
variable b1) and a second variable on another grid axis: the coefficient array is aligned from the LAST
grid axis instead of the first, so d(signal)/d(b1) is silently scaled by the wrong flip angle."""
import sys
import numpy as np
from epgpy import sequence as sq

a0 = np.array([30.0, 60.0, 90.0])  # nominal flip angles -> grid axis 0
T2 = np.array([[20.0, 40.0, 80.0]])  # T2 values          -> grid axis 1


def make(a0):
    b1 = sq.Variable("b1")
    return sq.Sequence(
        [sq.T(b1 * a0, 90), sq.E(5, 1000, "T2"), sq.T(b1 * a0, 0), sq.E(5, 1000, "T2"), "ADC"]
    )


sig, jac = make(a0).jacobian(["b1", "T2"], b1=0.9, T2=T2)  # sig: 3 x 3 x 1, jac: 3 x 3 x 1 x 2
print("signal shape", sig.shape, "jacobian shape", jac.shape)

# ground truth 1: central finite difference of the vectorised signal w/r b1
eps = 1e-6
fd = (make(a0).signal(b1=0.9 + eps, T2=T2) - make(a0).signal(b1=0.9 - eps, T2=T2)) / (2 * eps)

bad = 0
for i in range(3):
    for j in range(3):
        # ground truth 2: scalar simulation with the parameter values of grid index (i, j)
        s0, j0 = make(a0[i]).jacobian(["b1", "T2"], b1=0.9, T2=T2[0, j])
        ok = (
            np.allclose(sig[i, j], s0[0])
            and np.allclose(jac[i, j], j0[0])
            and np.allclose(jac[i, j, 0, 0], fd[i, j, 0], rtol=1e-5, atol=1e-8)
        )
        bad += not ok
        print(
            f"[{i},{j}] dS/db1 vectorised={jac[i, j, 0, 0]:.5f} scalar={j0[0, 0, 0]:.5f} "
            f"finite-diff={fd[i, j, 0]:.5f} {'ok' if ok else 'MISMATCH'}"
        )

print("mismatching grid entries:", bad)
sys.exit(1 if bad else 0)
