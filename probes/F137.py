# probe F137 (properties C18, C20): exits 1 while the defect is present, 0 when it is gone
"""bf1695b: unit-amplitude phase-modulated waveforms are still rejected as 'magnitude > 1'
when the samples are single precision (complex64 / float32 phases): there
|exp(i theta)| rounds to 1 + 1 ulp(float32) = 1 + 1.2e-7, above the fixed 1 + 1e-12."""
import sys
import numpy as np
from epgpy import rfpulse, operators as ops, functions

theta = np.linspace(0, 2 * np.pi, 64, endpoint=False)
v128 = np.exp(1j * theta)  # double precision: accepted since the commit
v64 = v128.astype(np.complex64)  # the same waveform stored in single precision
excess = float(np.max(np.abs(v64.astype(np.complex128))) - 1)
print(f"max |v64| - 1 = {excess:.3e}  (1 ulp of float32 = {np.finfo(np.float32).eps:.3e})")

ref = functions.simulate([rfpulse.RFPulse(v128, 1.0, rf=0.01), ops.ADC])
bad = False
try:
    sig = functions.simulate([rfpulse.RFPulse(v64, 1.0, rf=0.01), ops.ADC])
    ok = np.allclose(sig, ref, atol=1e-6)
    print("RFPulse(complex64 unit-modulus samples): observed", sig.ravel(), "expected", ref.ravel())
    bad |= not ok
except ValueError as exc:
    print("RFPulse(complex64 unit-modulus samples): observed ValueError:", exc)
    print("   expected: accepted, signal", ref.ravel())
    bad = True

# amplitude (float32) * exp(i * phase(float32)): same thing through make_pulse_sequence / estimate_alpha
amp, ph = np.ones(64, np.float32), theta.astype(np.float32)
try:
    rfpulse.RFPulse(amp * np.exp(1j * ph), 1.0, rf=0.01)
    print("RFPulse(float32 amplitude/phase): accepted")
except ValueError as exc:
    print("RFPulse(float32 amplitude/phase): observed ValueError:", exc, "; expected: accepted")
    bad = True

print("PROBLEM PRESENT" if bad else "ok")
sys.exit(1 if bad else 0)
