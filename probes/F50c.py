# probe F50 (properties C08, C14, C01): exits 1 while the defect is present, 0 when it is gone
"""PD(array) applied to a state matrix that does not have that batch axis yet leaves real-valued
(float64 / int64) states: every following RF pulse / evolution operator raises UFuncTypeError."""
import sys
import numpy as np
import epgpy as epg

pd = [1.0, 2.0]
alpha, phi = 90.0, 90.0
# ground truth: Bloch rotation of M = (0, 0, m0) by alpha about the axis at angle phi of the xy-plane:
# M+ = -1j sin(alpha) exp(1j phi) m0 (nothing is dephased: the ensemble mean is the same value)
f0 = np.array([-1j * np.sin(np.deg2rad(alpha)) * np.exp(1j * np.deg2rad(phi)) * m0 for m0 in pd])
z0 = np.array(pd)  # after a reset the longitudinal magnetisation is the proton density
# the per-entry scalar simulations agree with the Bloch values
assert np.allclose([epg.T(alpha, phi)(epg.PD(m0)(epg.StateMatrix())).F0[0] for m0 in pd], f0)

programs = {
    "PD, T applied one by one": (lambda: epg.T(alpha, phi)(epg.PD(pd)(epg.StateMatrix())).F0, f0),
    "PD * T (MultiOperator)": (lambda: (epg.PD(pd) * epg.T(alpha, phi))(epg.StateMatrix()).F0, f0),
    "simulate([PD, T, ADC], init=StateMatrix())": (
        lambda: epg.simulate([epg.PD(pd), epg.T(alpha, phi), epg.ADC], init=epg.StateMatrix())[0],
        f0,
    ),
    "PD(reset=False), RESET, E(0, ..) -> Z0": (
        lambda: epg.E(0, 100, 30)(epg.RESET(epg.PD(pd, reset=False)(epg.StateMatrix()))).Z0,
        z0,
    ),
}
sm = epg.PD(pd)(epg.StateMatrix())
print("dtype of the states after PD([1., 2.]):", sm.states.dtype, "(expected complex128)")
bad = sm.states.dtype != np.complex128
for name, (prog, truth) in programs.items():
    try:
        obs = np.asarray(prog()).ravel()
        ok = obs.shape == truth.shape and np.allclose(obs, truth)
        print(f"{name}:\n   observed {obs}\n   truth    {truth}", "" if ok else "  <-- MISMATCH")
    except Exception as exc:
        ok = False
        print(f"{name}:\n   observed {type(exc).__name__}: {exc}\n   truth    {truth}")
    bad |= not ok
sys.exit(1 if bad else 0)
