# probe F129 (properties C14): exits 1 while the defect is present, 0 when it is gone
"""RF pulses / precession / phase offsets are not isometries when their parameter arrays are float32.

T, Phi and P build their complex128 operator arrays from cos / sin / exp evaluated in the precision of the
parameter array.  With a float32 array (a B1 or B0 map read from an image file) the rotation matrix is unitary
only to 1e-7 (|det| - 1 = 8e-8) and the precession phasor has modulus 1 +- 3e-8: the error is the same at every
application, so the norm drifts linearly - 2e-5 after 600 pulses, upwards for some entries (norm and echo > PD).
Ground truth: the property (norm exactly PD = 1) and the SAME parameter values given as float64 (drift 1e-13).
"""
import sys
import numpy as np
import epgpy as epg

N = 600
b1 = np.array([0.8, 0.9, 1.0, 1.1], dtype=np.float32)  # B1 map (float32, as read from an image)
b0 = np.array([0.0123, 0.0456, 0.1, 0.3333], dtype=np.float32)  # off-resonance map, kHz


def cpmg(att):
    """T(90) [S(1) T(180 att) S(1)] x N, no relaxation"""
    sm = epg.T(90, 90)(epg.StateMatrix())
    rfc, shift = epg.T(180 * att, 0), epg.S(1)
    for _ in range(N):
        sm = shift(rfc(shift(sm)))
    return sm


def precess(g):
    sm = epg.T(90, 90)(epg.StateMatrix())
    op = epg.P(4.2, g)
    for _ in range(N):
        sm = op(sm)
    return sm


ok = True
print("|det T(180 b1)| - 1 :", np.abs(np.linalg.det(epg.T(180 * b1, 0).mat)) - 1, " (float32 b1)")
for label, run, par in [("CPMG, T(180 * b1)", cpmg, b1), ("precession P(4.2, b0)", precess, b0)]:
    sm32, sm64 = run(par), run(par.astype(np.float64))  # identical values, different dtype
    print(f"{label}, {N} applications, PD = 1")
    print("   float32 parameters: norm - 1 =", sm32.norm - 1, "  max |F0| - 1 =", np.abs(sm32.F0).max() - 1)
    print("   float64 parameters: norm - 1 =", sm64.norm - 1)
    ok &= bool(np.allclose(sm32.norm, 1, rtol=0, atol=1e-9)) and bool(np.all(np.abs(sm32.F0) <= 1 + 1e-9))
    assert np.allclose(sm64.norm, 1, rtol=0, atol=1e-9)

sys.exit(0 if ok else 1)
