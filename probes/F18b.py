# probe F18b (properties C07): exits 1 while the defect is present, 0 when it is gone
"""C07 defect 2: R(rT, rL, r0, order1=...) with parameters of different rank (rT on grid axis 0, rL on
axis 1): the derivative arrays (computed from ONE parameter only) are aligned with the operator from the
LAST axis, so the Jacobian w/r rT is transposed on the grid (ValueError if the grid is not square)."""
import sys
import numpy as np
from epgpy import operators as ops, functions as fn

rT = np.array([0.1, 0.5, 0.9])  # grid axis 0
rL = np.array([[0.2, 0.3, 0.7]])  # grid axis 1


def seq(rT, rL, order1=None):
    return [ops.T(40, 20), ops.R(rT, rL, r0=rL, order1=order1), ops.T(30, 10), ops.ADC]


probe = [ops.ADC, ops.Jacobian(["rT", "rL"])]
sig, jac = fn.simulate(seq(rT, rL, ["rT", "rL"]), probe=probe)  # 1 x 3 x 3 and 1 x 3 x 3 x 2
print("getshape", fn.getshape(seq(rT, rL)), "signal", sig.shape, "jacobian", jac.shape)

# ground truth 1: finite difference of the vectorised signal w/r rT
eps = 1e-6
fd = (fn.simulate(seq(rT + eps, rL)) - fn.simulate(seq(rT - eps, rL))) / (2 * eps)

bad = 0
for i in range(3):
    for j in range(3):
        # ground truth 2: scalar simulation at grid index (i, j)
        s0, j0 = fn.simulate(seq(rT[i], rL[0, j], ["rT", "rL"]), probe=probe)
        ok = (
            np.allclose(sig[0, i, j], s0[0, 0])
            and np.allclose(jac[0, i, j], j0[0, 0])
            and np.allclose(jac[0, i, j, 0], fd[0, i, j], rtol=1e-5)
        )
        bad += not ok
        print(
            f"[{i},{j}] dS/drT vectorised={jac[0, i, j, 0]:.5f} scalar={j0[0, 0, 0]:.5f} "
            f"finite-diff={fd[0, i, j]:.5f} {'ok' if ok else 'MISMATCH'}"
        )

# non-square grid: same call raises although the shapes are broadcast-compatible
try:
    fn.simulate(seq(rT, rL[:, :2], ["rT"]), probe=probe)
    print("non-square grid (3, 2): ok")
except ValueError as exc:
    bad += 1
    print("non-square grid (3, 2): ValueError:", str(exc)[:90])

print("failures:", bad)
sys.exit(1 if bad else 0)
