# probe F116 (properties C11): exits 1 while the defect is present, 0 when it is gone
"""Virtual R (and any virtual operator whose leading positional parameters have defaults) cannot take a later
parameter by keyword unless all earlier ones are given: R(rL=...) is legal for the concrete operator
(rT defaults to 0) but the virtual one files `rL` under the options and raises "Unknown option(s)"."""
import sys
import numpy as np
from epgpy import sequence as sq, operators as epg, functions

ops = sq.operators
tau, T1 = sq.Variable("tau"), sq.Variable("T1")
vals = dict(tau=300.0, T1=800.0)

hand = [epg.T(60.0, 90), epg.R(rL=300.0 / 800.0, r0=300.0 / 800.0), epg.T(60.0, 90), epg.ADC]
truth = np.moveaxis(np.asarray(functions.simulate(hand)), 0, -1)
print("by hand R(rL=tau/T1, r0=tau/T1)          :", truth.ravel())

ok = True
cases = {
    "virtual R(0, tau/T1, r0=tau/T1)": lambda: ops.R(0, tau / T1, r0=tau / T1),
    "virtual R(rL=tau/T1, r0=tau/T1)": lambda: ops.R(rL=tau / T1, r0=tau / T1),
    "virtual R(r0=tau/T1, rL=tau/T1)": lambda: ops.R(r0=tau / T1, rL=tau / T1),
}
for label, make in cases.items():
    try:
        seq = sq.Sequence([ops.T(60.0, 90), make(), ops.T(60.0, 90), "ADC"])
        sig, jac = seq.jacobian(["T1"], **vals)
        h = 1e-3
        fd = (seq.signal(tau=300.0, T1=800.0 + h) - seq.signal(tau=300.0, T1=800.0 - h)) / (2 * h)
        good = np.allclose(sig, truth) and np.allclose(jac[..., 0], fd, rtol=1e-6, atol=1e-12)
        print(f"{label:41s}:", sig.ravel(), "dS/dT1", jac.ravel(), "fd", fd.ravel(), "OK" if good else "MISMATCH")
    except Exception as err:
        print(f"{label:41s}:", type(err).__name__, err)
        good = False
    ok = ok and good
sys.exit(0 if ok else 1)
