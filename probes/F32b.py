# probe F32b (properties C12): exits 1 while the defect is present, 0 when it is gone
"""Array durations are summed with numpy (trailing-axis) broadcasting, and ignore `axes=`,
while the operators they belong to live on leading / explicitly placed batch axes."""
import sys
import numpy as np
import epgpy as epg

T2 = 100.0
tau1 = np.array([1.0, 2.0, 3.0])  # batch axis 0
tau2 = np.array([10.0, 20.0, 30.0])  # batch axis 1
ok = True
for label, e1, e2 in [
    ("2-D tau", epg.E(tau1, 1e3, T2, duration=True), epg.E(tau2[None, :], 1e3, T2, duration=True)),
    ("axes=1 ", epg.E(tau2, 1e3, T2, duration=True, axes=1), epg.E(tau1, 1e3, T2, duration=True)),
]:
    seq = [epg.T(90, 90), e1, e2, epg.ADC]
    times, values = epg.simulate(seq, adc_time=True)
    sig = values[0]  # shape (3, 3): entry [i, j] evolved during tau1[i] + tau2[j]
    # ground truth 1: defining formula; ground truth 2: elapsed time read off the T2 decay
    expected = tau1[:, None] + tau2[None, :]
    elapsed = -T2 * np.log(np.abs(sig))
    assert np.allclose(elapsed, expected)
    print(f"[{label}] signal shape {sig.shape}, reported times shape {times[0].shape}")
    print("reported time of the ADC :", times[0].tolist())
    print("expected (sum of durations per batch entry):")
    print(expected)
    try:
        good = np.allclose(np.broadcast_to(times[0], sig.shape), expected)
    except ValueError:
        good = False
    ok &= good
print("AGREE" if ok else "DISAGREE")
sys.exit(0 if ok else 1)
