# probe F53 (properties C11, C03, C19): exits 1 while the defect is present, 0 when it is gone
"""Sequence.hessian drops the second derivative of a parameter expression when it is 'np.allclose' to 0
(absolute tolerance 1e-8), although it is multiplied by a large first-order sensitivity:
R(rT=tau/T2, rL=tau/T1, r0=tau/T1) at T1 = 1000 ms: d2(tau/T1)/dT1^2 = 2*tau/T1^3 = 1e-8 is discarded."""
import sys
import warnings
import numpy as np
from epgpy.sequence import Sequence, Variable, operators as ops

warnings.simplefilter("ignore")
T1, T2, tau = Variable("T1"), Variable("T2"), 5.0
rlx = ops.R(tau / T2, tau / T1, r0=tau / T1)
seq = Sequence([ops.T(30, 90), rlx, ops.T(30, 90), rlx, "ADC"])
vals = dict(T1=1000.0, T2=50.0)

_, jac, hes = seq.hessian(["T1", "T2"], **vals)
hes = hes[0, 0]

def signal(T1, T2):
    return seq.signal(T1=T1, T2=T2)[0, 0]

def fd2(i, j, steps=(1.0, 0.1)):
    x0 = np.array([vals["T1"], vals["T2"]])
    def f(di, dj):
        x = x0.copy(); x[i] += di; x[j] += dj
        return signal(*x)
    hi, hj = steps[i], steps[j]
    return (f(hi, hj) - f(hi, -hj) - f(-hi, hj) + f(-hi, -hj)) / (4 * hi * hj)

ref = np.array([[fd2(0, 0), fd2(0, 1)], [fd2(1, 0), fd2(1, 1)]])
# the same sequence written with E (no expression involved) as a second reference
seqE = Sequence([ops.T(30, 90), ops.E(tau, "T1", "T2"), ops.T(30, 90), ops.E(tau, "T1", "T2"), "ADC"])
hesE = seqE.hessian(["T1", "T2"], **vals)[2][0, 0]

print("Hessian (T1,T2) from Sequence.hessian with R(tau/T2, tau/T1):\n", hes.real)
print("finite differences of seq.signal:\n", ref.real)
print("same sequence with E(tau, T1, T2):\n", hesE.real)
ok = np.allclose(hes, ref, rtol=1e-3, atol=1e-13)
print("AGREE" if ok else "DISAGREE: d2S/dT1^2 = %.4g, expected %.4g" % (hes[0, 0].real, ref[0, 0].real))
sys.exit(0 if ok else 1)
