# probe F35 (properties C12): exits 1 while the defect is present, 0 when it is gone
"""simulate() raises when the acquisition times of successive ADCs have different shapes
(an ADC before and one after an operator with an array duration), even with adc_time=False."""
import sys
import traceback
import numpy as np
import epgpy as epg

tau = np.array([1.0, 2.0, 3.0])
T2 = 100.0
seq = [epg.T(90, 90), epg.ADC, epg.E(tau, 1e3, T2, duration=True), epg.ADC]
print("get_adc_times:", epg.get_adc_times(seq))

# ground truth: one scalar simulation per echo time
ref = np.array(
    [epg.simulate([epg.T(90, 90), epg.ADC, epg.E(t, 1e3, T2, duration=True), epg.ADC])[:, 0] for t in tau]
).T
ref_times = np.array([0 * tau, tau])
print("expected values (2 ADC x 3 entries):\n", ref)
print("expected times:\n", ref_times)

ok = True
for kwargs in [{}, {"adc_time": True}]:
    try:
        out = epg.simulate(seq, **kwargs)
        times, values = out if kwargs else (ref_times, out)
        print(f"simulate(seq, {kwargs}) ->", values, times)
        ok &= np.allclose(values, ref) and np.allclose(np.broadcast_to(times, ref.shape), ref_times)
    except Exception:
        print(f"simulate(seq, **{kwargs}) raised:")
        traceback.print_exc(limit=1)
        ok = False
print("AGREE" if ok else "DISAGREE")
sys.exit(0 if ok else 1)
