# probe F106 (properties C17): exits 1 while the defect is present, 0 when it is gone
"""Sequence.confint rejects a plain observation vector of shape (nADC,) (the form of docs/sequence.md:
`seq.confint(obs, ['T2', 'b1'])(...)` with a result of shape (2,)), although stats.confint applied to the
sequence's own prediction / Jacobian accepts it (broadcasting) and gives the defining value."""
import sys
import numpy as np
from epgpy import stats
from epgpy.sequence import Sequence, operators as ops

necho = 10
seq = Sequence(
    [ops.T(90, 90)]
    + [ops.S(1), ops.E(5, 1000, "T2"), ops.T("alpha", 0), ops.S(1), ops.E(5, 1000, "T2"), "ADC"] * necho
)
values = {"T2": 30.0, "alpha": 150.0}
variables = ["T2", "alpha"]

pred, jac = seq.jacobian(variables)(**values)  # shapes (1, necho), (1, necho, 2)
rng = np.random.default_rng(0)
obs = pred[0] + 0.01 * (rng.normal(size=necho) + 1j * rng.normal(size=necho))  # shape (necho,)

# ground truth: defining formula t * sqrt(diag(SSE/dof * inv(Re(J^H J)))) on the sequence's own Jacobian
J = jac[0]
res = obs - pred[0]
dof = necho - len(variables)
cov = np.sum(abs(res) ** 2) / dof * np.linalg.inv((J.conj().T @ J).real)
expected = 2.3060041350333704 * np.sqrt(np.diag(cov))  # t(0.975, dof=8)
print("expected (formula)      :", expected)
print("stats.confint(obs, ...) :", stats.confint(obs, pred, jac)[0].ravel())

try:
    observed = np.asarray(seq.confint(obs, variables)(**values))
except Exception as exc:
    print(f"Sequence.confint        : raises {type(exc).__name__}: {exc}")
    sys.exit(1)
print("Sequence.confint        :", observed.ravel())
sys.exit(0 if np.allclose(observed.ravel(), expected) else 1)
