# probe F40 (properties C15): exits 1 while the defect is present, 0 when it is gone
"""Imaging: a modulation array over the batch axis (one off-resonance / T2' value per batch
entry) is applied along the voxel-position axis.  Batch = 3 values of T2, 3 voxel positions,
modulation m[b] = rate[b] + 1j*freq[b] through System(modulation=m) or Imaging(modulation=m).
Expected: out[b, p] = scalar simulation with T2[b], modulation m[b], at position p."""
import sys
import numpy as np
import epgpy as epg

T2 = np.array([20.0, 30.0, 50.0])
pos = np.array([[0.3], [-0.4], [1.1]])
m = np.array([-0.05 + 0.13j, -0.2 - 0.2j, -0.1 + 0.05j])
size = 0.8


def seq(adc, T2, pre=()):
    return list(pre) + [epg.T(30, 40), epg.S(1), epg.C(2.0), epg.E(5, 100, T2), epg.T(70, -20),
                        epg.S(2), epg.C(1.5), epg.E(3, 100, T2), epg.T(50, 10), epg.S(-1), epg.C(0.7), adc]


# ground truth: per-index scalar simulations (scalar T2, scalar modulation, one position)
expected = np.array(
    [[epg.simulate(seq(epg.Imaging(p, voxel_size=size, modulation=mb), t2), kgrid=0.1).item() for p in pos]
     for t2, mb in zip(T2, m)])

ok = True
for label, adc, pre in [
    ("System(modulation=m)", epg.Imaging(pos, voxel_size=size, reduce=False), [epg.System(modulation=m)]),
    ("Imaging(modulation=m)", epg.Imaging(pos, voxel_size=size, reduce=False, modulation=m), []),
]:
    out = epg.simulate(seq(adc, T2, pre), kgrid=0.1)[0]
    good = out.shape == expected.shape and np.allclose(out, expected)
    ok &= good
    print(label, "OK" if good else "MISMATCH", "\nobserved [batch, position]:\n", np.round(out, 4))
    print("expected:\n", np.round(expected, 4))

# with a number of positions different from the batch size the same call raises
try:
    adc = epg.Imaging(pos[:2], voxel_size=size, reduce=False)
    out = epg.simulate(seq(adc, T2, [epg.System(modulation=m)]), kgrid=0.1)[0]
    print("3 batch entries, 2 positions -> shape", out.shape, "(expected (3, 2))")
    ok &= out.shape == (3, 2)
except Exception as exc:
    ok = False
    print("3 batch entries, 2 positions -> raised", repr(exc))
sys.exit(0 if ok else 1)
