# probe F53 (properties C11, C03, C19): exits 1 while the defect is present, 0 when it is gone
"""Sequence.hessian with a non-linear parameter expression: the second derivative of the parameter
w/r to the variable is dropped when it is < 1e-8 in absolute value (np.allclose(d2param, 0)),
whatever the scale of the variable: the term dS/dp * d2p/dx2 of the Hessian is silently lost."""
import sys
import numpy as np
from epgpy import sequence as sq

x = sq.Variable("x")
k, tau, x0 = 1e-9, 10.0, 1000.0  # g = k x^2 = 1e-3 kHz ; d2g/dx2 = 2e-9
seq = sq.Sequence([sq.T(90, 90), sq.P(tau, k * x**2), "ADC"])
sig, jac, hes = seq.hessian(["x"], x=x0)
sig, jac, hes = sig[0, 0], jac[0, 0, 0], hes[0, 0, 0, 0]

# ground truth: S(x) = S(0) exp(i w x^2), with w from the simulated phase
s0 = seq.signal(x=1e-12)[0, 0]
w = np.angle(sig / s0) / x0**2
ref1 = sig * 2j * w * x0
ref2 = sig * ((2j * w * x0) ** 2 + 2j * w)
# second check: central finite difference of the signal
h = 1.0
fd2 = (seq.signal(x=x0 + h)[0, 0] - 2 * sig + seq.signal(x=x0 - h)[0, 0]) / h**2

print("dS/dx     observed", jac, " expected", ref1)
print("d2S/dx2   observed", hes)
print("          expected", ref2, "(analytic)")
print("          expected", fd2, "(finite difference)")
err = abs(hes - ref2) / abs(ref2)
print("relative error", err)

# same expression, larger scale of the coefficient: correct
seq2 = sq.Sequence([sq.T(90, 90), sq.P(tau, 1e-3 * x**2), "ADC"])
_, _, hes2 = seq2.hessian(["x"], x=1.0)
sig2 = seq2.signal(x=1.0)[0, 0]
w2 = np.angle(sig2 / s0)
print("k=1e-3, x=1: relative error", abs(hes2[0, 0, 0, 0] - sig2 * ((2j * w2) ** 2 + 2j * w2)) / abs(sig2 * ((2j * w2) ** 2 + 2j * w2)))
sys.exit(1 if err > 1e-6 else 0)
