# probe F92 (properties C05, C06, C08, C18, C01, C12): exits 1 while the defect is present, 0 when it is gone
"""X.copy() (public Operator.copy, e.g. to give an existing exchange step a name or a duration) returns an
object without the exchange matrix: applying the copy (or asking its shape, or simulating it) raises
AttributeError, whereas copies of E / T / S behave like the original."""
import sys
import numpy as np
from epgpy import operators as ops, statematrix, functions

sm = ops.T(40, 90)(statematrix.StateMatrix())
x = ops.X(5.0, 0.2, T1=[500.0, 900.0], T2=[20.0, 60.0], g=[0.0, 0.01])
ref = x(sm).states  # ground truth: the original operator
e = ops.E(5.0, 500.0, 20.0)
print("E.copy(duration=5) works:", np.allclose(e.copy(duration=5.0)(sm).states, e(sm).states))

ok = True
for label, make in [("X.copy()", lambda: x.copy()), ("X.copy(duration=5)", lambda: x.copy(duration=5.0))]:
    try:
        xc = make()
        obs = xc(sm).states
        times, sig = functions.simulate([ops.T(40, 90), xc, ops.ADC], adc_time=True)
        good = np.allclose(obs, ref) and np.allclose(sig[0], x(sm).F0)
        print(label, "-> max |copy - original| =", np.abs(obs - ref).max(), "adc time", times)
    except Exception as exc:
        good = False
        print(label, "-> raised %s: %s   (expected: same states as the original, F0 = %s)" % (type(exc).__name__, exc, np.round(x(sm).F0, 4)))
    ok = ok and good
print("OK" if ok else "MISMATCH")
sys.exit(0 if ok else 1)
