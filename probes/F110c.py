# probe F110 (properties C12, C01, C07): exits 1 while the defect is present, 0 when it is gone
"""C07 defect 1: simulate(seq, init=<StateMatrix>) does not give the state matrix the shape of the sequence.

An acquisition placed before the first array-valued operator returns values without the parameter axes:
the output is not (n_acquisitions,) + getshape(sequence); with several acquisitions simulate() raises.
Ground truth: the same call with the default initial state (init=None / [0, 0, 1]) and the per-index
scalar simulations started from the same StateMatrix.
"""
import sys
import numpy as np
import epgpy as epg

alpha = [10.0, 20.0, 30.0]


def sequence(a):
    # acquisition, then a flip-angle axis, then a second acquisition
    return [epg.T(90, 90), epg.E(5, 1000, 50), epg.ADC, epg.T(a, 0), epg.E(5, 1000, 50), epg.ADC]


seq = sequence(alpha)
expected_shape = (2,) + epg.getshape(seq)
# ground truth: scalar simulations started from the same StateMatrix object form
truth = np.stack([epg.simulate(sequence(a), init=epg.StateMatrix())[:, 0] for a in alpha], axis=1)
print("expected shape:", expected_shape, " default init gives:", epg.simulate(seq).shape)

ok = True
try:
    out = epg.simulate(seq, init=epg.StateMatrix())  # the default initial state, given as a StateMatrix
    print("init=StateMatrix() gives shape:", np.shape(out))
    ok &= np.shape(out) == expected_shape and np.allclose(out, truth)
except Exception as exc:
    print("init=StateMatrix() raises:", repr(exc)[:150])
    ok = False

# single acquisition before the array-valued operator: no exception, but the parameter axis is missing
seq1 = [epg.T(90, 90), epg.E(5, 1000, 50), epg.ADC, epg.T(alpha, 0)]
out1 = epg.simulate(seq1, init=epg.StateMatrix())
print("one early ADC: shape", out1.shape, "expected", (1,) + epg.getshape(seq1), "(default init:", epg.simulate(seq1).shape, ")")
ok &= out1.shape == (1,) + epg.getshape(seq1)

print("observed == ground truth:", bool(ok))
sys.exit(0 if ok else 1)
