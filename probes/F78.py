# probe F78 (properties C01, C13): exits 1 while the defect is present, 0 when it is gone
"""S(int array, prune=True) / simulate(..., prune=True): the flag is used as the pruning *tolerance*
(tol = True = 1.0): every phase state whose entries are all below 1 in magnitude is removed at the shift.
(prune=False / 0 disables pruning and the default 1e-8 is a tolerance, so True should mean "prune empty states".)"""
import sys
import numpy as np
import epgpy as epg

N = 16
theta = 2 * np.pi * np.arange(N) / N
a1, a2 = np.deg2rad(30.0), np.deg2rad(120.0)

# ground truth: Bloch isochromats, T(30, 90) S(1) T(120, 0) S(1), ensemble mean of M+
M = np.tile([0.0, 0.0, 1.0], (N, 1))
def roty(M, a): return np.c_[np.cos(a) * M[:, 0] + np.sin(a) * M[:, 2], M[:, 1], -np.sin(a) * M[:, 0] + np.cos(a) * M[:, 2]]
def rotx(M, a): return np.c_[M[:, 0], np.cos(a) * M[:, 1] - np.sin(a) * M[:, 2], np.sin(a) * M[:, 1] + np.cos(a) * M[:, 2]]
def rotz(M, p): return np.c_[np.cos(p) * M[:, 0] - np.sin(p) * M[:, 1], np.sin(p) * M[:, 0] + np.cos(p) * M[:, 1], M[:, 2]]
M = rotz(rotx(rotz(roty(M, a1), theta), a2), theta)
truth = np.mean(M[:, 0] + 1j * M[:, 1])

def seq(shift):
    return [epg.T(30, 90), shift, epg.T(120, 0), shift, epg.ADC]

results = {
    "S(1)": epg.simulate(seq(epg.S(1))),
    "S([1])": epg.simulate(seq(epg.S([1]))),
    "S([1], prune=False)": epg.simulate(seq(epg.S([1], prune=False))),
    "S([1], prune=True)": epg.simulate(seq(epg.S([1], prune=True))),
    "S([1]), simulate(prune=True)": epg.simulate(seq(epg.S([1])), prune=True),
}
bad = False
for name, obs in results.items():
    obs = complex(np.ravel(obs)[0])
    ok = np.isclose(obs, truth)
    print(f"{name:32s} F0 observed {obs:.6f}   truth {truth:.6f}", "" if ok else "  <-- MISMATCH")
    bad |= not ok
sys.exit(1 if bad else 0)
