# probe F87 (properties C17, C11): exits 1 while the defect is present, 0 when it is gone
"""Variable objects instead of names (the form used in the module documentation:
`seq.crlb([var1, var2], gradient=[var3])({var1: value1}, var2=value2)`) raise TypeError."""
import sys, warnings
import numpy as np
from epgpy.sequence import Sequence, Variable, operators as vo

warnings.simplefilter("ignore")
T, S, E, ADC = vo.T, vo.S, vo.E, vo.ADC
T1, T2, b1 = Variable("T1"), Variable("T2"), Variable("b1")
seq = Sequence([T(90 * b1, 90)] + [E(5, T1, T2), S(1), T(150 * b1, 0), S(1), E(5, T1, T2), ADC] * 6)
names = dict(T1=1000.0, T2=50.0, b1=0.9)
cost, grad = seq.crlb(["T2", "b1"], gradient=["T1"])(names)  # all-names form: the reference
rng = np.random.default_rng(0)
obs = seq.signal(**names) + 1e-3 * rng.normal(size=(1, 6))
cint = seq.confint(obs, ["T2", "b1"])(names)
print("reference (names only): crlb", cost, "gradient", grad.ravel(), "confint", cint.ravel())

ok = True
calls = {
    "crlb([T2, b1])(names)": lambda: seq.crlb([T2, b1])(names),
    "crlb(['T2','b1'])({T1: .., T2: .., b1: ..})": lambda: seq.crlb(["T2", "b1"])({T1: 1000.0, T2: 50.0, b1: 0.9}),
    "crlb(['T2','b1'])({T1: ..}, T2=.., b1=..)": lambda: seq.crlb(["T2", "b1"])({T1: 1000.0}, T2=50.0, b1=0.9),
    "confint(obs, [T2, b1])({T1: .., T2: .., b1: ..})": lambda: seq.confint(obs, [T2, b1])({T1: 1000.0, T2: 50.0, b1: 0.9}),
    "crlb([T2, b1], gradient=[T1])(names)": lambda: seq.crlb([T2, b1], gradient=[T1])(names),
}
for label, call in calls.items():
    expected = cint if label.startswith("confint") else cost
    try:
        res = call()
        val = res[0] if isinstance(res, tuple) else res
        good = np.allclose(val, expected)
        if isinstance(res, tuple):
            good &= np.allclose(res[1], grad)
        print(f"{label}: {np.ravel(val)} expected {np.ravel(expected)}")
    except Exception as exc:
        good = False
        print(f"{label}: raised {type(exc).__name__}: {exc}   expected {np.ravel(expected)}")
    ok &= bool(good)
sys.exit(0 if ok else 1)
