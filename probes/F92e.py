# probe F92 (properties C05, C06, C08, C18, C01, C12): exits 1 while the defect is present, 0 when it is gone
"""Operator.copy(name=..., duration=...) (public, documented 'return copy of self') only copies name and duration:
the copies of PD, Adc / ADC, Probe and MultiOperator lack their own attributes (pd, reset, attr, phase, _acquire,
operators, _shape, ...) and raise AttributeError as soon as they are applied or simulated.  (The copies of T, E, P,
R, Phi, S, SPOILER, RESET, Wait work.)  Ground truth: the original operators / a Bloch rotation."""
import sys
import numpy as np
import epgpy as epg

pd, alpha = 2.0, 40.0
originals = {
    "PD": epg.PD(pd),
    "T": epg.T(alpha, 90),
    "E": epg.E(5.0, 100.0, 30.0),
    "S": epg.S(1),
    "T*S*S(-1)": epg.T(10, 0) * epg.S(1) * epg.S(-1),
    "Probe('F0')": epg.Probe("F0"),
    "Adc('Z0')": epg.Adc("Z0", phase=30.0),
    "ADC": epg.ADC,
}
ok = True
for key in originals:
    ops = dict(originals)
    seq = lambda d: [d["PD"], d["T"], d["S"], d["E"], d["T*S*S(-1)"], d["S"].copy(), epg.S(-2), d["Probe('F0')"], d["Adc('Z0')"], d["ADC"]]
    expected = epg.simulate(seq(ops), asarray=False)
    try:
        ops[key] = originals[key].copy(name=f"copy of {key}", duration=1.0)
        observed = epg.simulate(seq(ops), asarray=False)
        good = all(np.allclose(o, e) for o, e in zip(observed, expected))
        print(f"copy of {key:12s}: observed", np.round(np.ravel(observed), 5).tolist(), "expected", np.round(np.ravel(expected), 5).tolist())
    except Exception as exc:
        good = False
        print(f"copy of {key:12s}: raises {type(exc).__name__}: {exc}   (expected {np.round(np.ravel(expected), 5).tolist()})")
    ok &= good
# independent ground truth for the simplest case: PD then a rotation about y, M+ = pd sin(alpha)
truth = pd * np.sin(np.deg2rad(alpha))
try:
    obs = epg.simulate([epg.PD(pd).copy(), epg.T(alpha, 90), epg.ADC])[0, 0]
except Exception as exc:
    obs = f"{type(exc).__name__}: {exc}"
    ok = False
print("PD(2).copy(), T(40, 90), ADC: observed", obs, "Bloch", truth)
sys.exit(0 if ok else 1)
