# probe F110 (properties C12, C01, C07): exits 1 while the defect is present, 0 when it is gone
"""simulate() with its default options raises as soon as two probe occurrences of a sequence record arrays of
different shapes: an ADC and a Jacobian probe in the same sequence (also Adc() next to Adc('F') or
Adc(reduce=True)).  The property promises one entry per probe occurrence, in order, for any number and placement
of ADC / Adc / Probe / Jacobian operators.  Ground truth: the entries recorded with asarray=False."""
import sys
import numpy as np
import epgpy as epg

alpha = np.array([30.0, 60.0])
seq = [
    epg.T(alpha, 90, order1="alpha"),
    epg.E(5, 1000, 50),
    epg.ADC,  # signal, shape (2,)
    epg.Jacobian(["magnitude", "alpha"]),  # shape (2, 2)
]
ref = epg.simulate(seq, asarray=False)
print("entries recorded (asarray=False):", [np.shape(v) for v in ref])
assert np.allclose(ref[0], np.sin(np.deg2rad(alpha)) * np.exp(-5 / 50))
assert np.allclose(ref[1][:, 1], np.deg2rad(np.cos(np.deg2rad(alpha))) * np.exp(-5 / 50))

try:
    times, values = epg.simulate(seq, adc_time=True)  # default: asarray=True
except Exception as exc:
    print("simulate(seq) raised:", repr(exc))
    sys.exit(1)

print("times:", times, " entries:", [np.shape(v) for v in values])
ok = len(values) == len(ref) and all(
    np.shape(v) == np.shape(r) and np.allclose(v, r) for v, r in zip(values, ref)
)
sys.exit(0 if ok else 1)
