# probe F33 (properties C12): exits 1 while the defect is present, 0 when it is gone
"""An explicit MultiOperator(..., duration=d) is ignored by simulate()/get_adc_times()/modify()."""
import sys
import numpy as np
import epgpy as epg

T2 = 50.0
# a refocusing block declared to last 10 ms (its parts carry no individual duration)
block = epg.MultiOperator([epg.S(1), epg.T(180, 0), epg.S(1)], duration=10, name="refoc")
seq = [epg.T(90, 90, duration=1), block, epg.ADC]
print("durations of the operators:", [op.duration for op in seq])

t_get = epg.get_adc_times(seq)
t_sim, _ = epg.simulate(seq, adc_time=True)
t_exp = [1 + 10]
print("get_adc_times :", t_get, " simulate times:", t_sim.tolist(), " expected:", t_exp)

mod = epg.modify(seq, T2=T2)
obs = epg.simulate(mod)[0][0]
# ground truth: evolution of the operator's duration inserted after each operator with duration > 0
ref_seq = [
    epg.T(90, 90), epg.E(1, 1e10, T2),
    epg.S(1), epg.T(180, 0), epg.S(1), epg.E(10, 1e10, T2),
    epg.ADC,
]
ref = epg.simulate(ref_seq)[0][0]
print("modify(T2=50): |F0| observed", abs(obs), " expected", abs(ref), "= exp(-11/50) =", np.exp(-11 / T2))

ok = np.allclose(t_get, t_exp) and np.allclose(t_sim, t_exp) and np.isclose(obs, ref)
print("AGREE" if ok else "DISAGREE")
sys.exit(0 if ok else 1)
