# probe F54 (properties C20, C03): exits 1 while the defect is present, 0 when it is gone
"""False rejection by the validation of differentiation pairs: order2=True ("compute all 2nd order partial derivatives")
together with an order1 selection raises 'Invalid variable pair(s)', although it is the example of docs/operators.md:
    epg.E(tau, T1, T2, order1=['T1', 'T2'], order2=True)
Ground truth: the same request with the pairs spelled out (order2=['T1', 'T2']), and order1=True, order2=True (accepted)."""
import sys, warnings
import numpy as np
import epgpy as epg

warnings.simplefilter("ignore")
bad = False
cases = {
    "E(.., order1=['T1','T2'], order2=True)": (lambda o2: epg.E(5, 1e3, 30, order1=["T1", "T2"], order2=o2), ["T1", "T2"]),
    "T(.., order1='alpha', order2=True)    ": (lambda o2: epg.T(20, 30, order1="alpha", order2=o2), ["alpha"]),
    "P(.., order1=['g'], order2=True)      ": (lambda o2: epg.P(5, 0.01, order1=["g"], order2=o2), ["g"]),
}
for label, (make, variables) in cases.items():
    seq = lambda op: [epg.T(30, 90), epg.S(1), op, epg.T(60, 0), op, epg.T(60, 0), epg.S(1), op, epg.ADC]
    probe = epg.Hessian(variables)
    expected = epg.simulate(seq(make(variables)), probe=probe)  # pairs spelled out
    try:
        observed = epg.simulate(seq(make(True)), probe=probe)
    except ValueError as exc:
        print(f"{label}: ValueError({exc}); expected Hessian {np.round(np.ravel(expected), 8)}")
        bad = True
        continue
    ok = np.allclose(observed, expected)
    print(f"{label}: Hessian {np.ravel(observed)}, expected {np.ravel(expected)}  {'ok' if ok else 'MISMATCH'}")
    bad |= not ok
# the unrestricted form is accepted
epg.E(5, 1e3, 30, order1=True, order2=True), epg.E(5, 1e3, 30, order2=True)
print("E(.., order1=True, order2=True) and E(.., order2=True): accepted")
sys.exit(1 if bad else 0)
