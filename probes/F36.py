# probe F36 (properties C13): exits 1 while the defect is present, 0 when it is gone
"""max_nstate / nmax is not enforced for batched integer shifts: a state is dropped only
when it is out of bounds for EVERY batch entry, so entries keep (non-zero) states far beyond
the cap and the number of states grows without bound."""
import sys
import numpy as np
from epgpy import operators as ops, statematrix

T, S = ops.T, ops.S
n, nrep = 2, 8
# batch entry 0: shift by 1 once, then no shift; entry 1: shift by 1 every time
shifts = [np.array([[1], [1]])] + [np.array([[0], [1]])] * (nrep - 1)


def run(shifts, option=True, **kw):
    sm = T(90, 90)(statematrix.StateMatrix(**({'max_nstate': n} if option else {})))
    for k in shifts:
        sm = T(40, 0)(S(k, **kw)(sm))
    return sm


def max_index(sm):
    """largest |wavenumber index| that carries a non-zero amplitude"""
    amp = np.abs(sm.states).max(axis=-1)
    idx = np.abs(sm.k).max(axis=-1) * np.ones(amp.shape)
    return int(idx[amp > 1e-8].max())


sm = run(shifts)
# ground truth: the batch entry 1 simulated alone with the same cap
ref = run([np.array([[1]])] * nrep)
ref1d = run([1] * nrep)
print(f"cap n = {n}")
print(f"entry 1 alone, S([[1]])      : nstate={ref.nstate}, max index with amplitude={max_index(ref)}")
print(f"entry 1 alone, S(1)          : nstate={ref1d.nstate}, max index with amplitude={max_index(ref1d)}")
print(f"batched S([[0],[1]])         : nstate={sm.nstate}, max index with amplitude={max_index(sm)}")
# same with the nmax argument instead of the option
sm2 = run(shifts, option=False, nmax=n)
print(f"batched, nmax={n} argument     : nstate={sm2.nstate}, max index with amplitude={max_index(sm2)}")
bad = max_index(sm) > n or max_index(sm2) > n
sys.exit(1 if bad else 0)
