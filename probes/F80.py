# probe F80 (properties C19, C02): exits 1 while the defect is present, 0 when it is gone
"""simulate(seq, init=sm) silently discards the partial derivatives carried by `sm` (sm.order1 / sm.order2):
the Jacobian of a simulation continued from a state matrix lacks everything that happened before, the signal is right.
Ground truth: the same operators simulated in one go, and central finite differences.
"""
import sys, warnings
import numpy as np
import epgpy as epg

warnings.simplefilter("ignore")


def ops(alpha=30.0, T2=50.0, diff=True):
    kw1, kw2 = (dict(order1="alpha"), dict(order1="T2")) if diff else ({}, {})
    rf, rlx, sh = epg.T(alpha, 0, **kw1), epg.E(5, 800, T2, **kw2), epg.S(1)
    return [rf, rlx, sh], [rf, sh, rlx, epg.ADC]


probes = [epg.ADC, epg.Jacobian(["alpha", "T2"])]
part1, part2 = ops()

# one go
sig_ref, jac_ref = epg.simulate(part1 + part2, probe=probes)

# first part applied operator by operator, second part continued with simulate(init=...)
sm = epg.StateMatrix()
for op in part1:
    sm = op(sm)
print("partials carried by init  :", sorted(sm.order1))
sig, jac = epg.simulate(part2, init=sm, probe=probes)

# finite differences
h = 1e-5
f = lambda **kw: np.asarray(epg.simulate(sum(ops(diff=False, **kw), [])))
fd = np.stack([(f(alpha=30 + h) - f(alpha=30 - h)) / (2 * h), (f(T2=50 + h) - f(T2=50 - h)) / (2 * h)], axis=-1)

print("signal   one go / continued:", sig_ref.ravel(), sig.ravel())
print("Jacobian one go            :", jac_ref.ravel())
print("Jacobian finite differences:", fd.ravel())
print("Jacobian continued (init=) :", jac.ravel())
ok = np.allclose(sig, sig_ref) and np.allclose(jac, jac_ref, rtol=1e-8, atol=0)
print("OK" if ok else "DEFECT: simulate(init=sm) dropped sm.order1 (StateMatrix.copy() does not carry the partials)")
sys.exit(0 if ok else 1)
