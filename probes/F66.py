# probe F66 (properties C18): exits 1 while the defect is present, 0 when it is gone
"""estimate_rf: the constant-phase test compares mod(angle, 180) of consecutive samples, so zero samples
(angle 0) and phases that straddle 0/180 by rounding make a constant-phase waveform 'non constant':
the closed form is skipped and, on a numpy-only install (scipy is optional), RuntimeError is raised."""
import sys
import numpy as np
import epgpy as epg
from epgpy import rfpulse

cases = {
    "hanning (zero end samples) * exp(i 30deg)": (np.hanning(16) * np.exp(1j * np.pi / 6), 30.0),
    "sinc * exp(i pi)  (= -sinc)": (np.sinc(np.linspace(-3, 3, 31)) * np.exp(1j * np.pi), 180.0),
    "real window + 1e-17 imaginary noise": (np.hanning(16)[1:-1] + 1e-17j * np.array([1, -1] * 7), 0.0),
}
target = 90
ok = True
for label, (values, theta) in cases.items():
    expected_rf = target / 180 / abs(np.sum(values))  # constant phase: angles add up
    # ground truth for the pulse: single rotation T(target, theta)
    ref = epg.T(target, theta)(epg.StateMatrix()).states[0, 0]
    try:
        rf = rfpulse.estimate_rf(values, target)
        obs = rfpulse.RFPulse(values, 1.0, alpha=target)(epg.StateMatrix()).states[0, 0]
        good = np.isclose(rf, expected_rf) and np.allclose(obs, ref) and np.isclose(rfpulse.estimate_alpha(values, rf), target)
        print(f"{label}: rf={rf} expected {expected_rf}; states {np.round(obs, 4)} expected {np.round(ref, 4)}")
    except Exception as exc:
        good = False
        print(f"{label}: raises {type(exc).__name__}: {exc}; expected rf={expected_rf:.6g}, states {np.round(ref, 4)}")
    ok &= bool(good)
print("OK" if ok else "DEFECT")
sys.exit(0 if ok else 1)
