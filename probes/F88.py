# probe F88 (properties C06): exits 1 while the defect is present, 0 when it is gone
"""X(tau, K, axis=1) with an N x N kinetic matrix raises IndexError, although the same exchange given as
a scalar rate works with axis=1 (the matrix has to be passed as K[None] to be accepted)."""
import sys
import numpy as np
from epgpy import operators as ops, statematrix

k, tau, T2 = 0.3, 5.0, [[20.0, 60.0]]
K = k * np.array([[1.0, -1.0], [-1.0, 1.0]])  # same 2-site exchange as the scalar rate k

# state matrix with a flip-angle batch on axis 0: compartments go on axis 1
sm = ops.T([30, 60, 90], 90)(statematrix.StateMatrix())
ref = ops.X(tau, k, axis=1, T2=T2)(sm).states  # scalar rate: accepted
# independent check of the reference: per flip angle, compartments on axis 0
for i, alpha in enumerate([30, 60, 90]):
    smi = ops.X(tau, K, T2=T2[0])(ops.T(alpha, 90)(statematrix.StateMatrix()))
    assert np.allclose(smi.states, ref[i])
print("ground truth F0 (3 flip angles x 2 compartments):\n", ref[..., 0, 0])

try:
    obs = ops.X(tau, K, axis=1, T2=T2)(sm).states
    print("observed F0:\n", obs[..., 0, 0])
    ok = obs.shape == ref.shape and np.allclose(obs, ref)
except Exception as exc:
    print("observed: X(tau, K (2x2), axis=1) raised %s: %s" % (type(exc).__name__, exc))
    ok = False
sys.exit(0 if ok else 1)
