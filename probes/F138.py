# probe F138 (properties C15): exits 1 while the defect is present, 0 when it is gone
"""df8c604: a voxel_size whose last axis has length 1 (np.array([s]), per-voxel sizes of
shape (npos, 1, 1)) used to broadcast over all wavenumber columns (isotropic box, same as
the scalar s); it is now zero-padded to (s, 0, 0): the box is a point along y and z."""
import sys
import numpy as np
import epgpy as epg
from epgpy import utils

rng = np.random.default_rng(0)
nstate, npos, s = 5, 4, 1.5
F = rng.standard_normal(nstate) + 1j * rng.standard_normal(nstate)
k = 3 * rng.standard_normal((nstate, 3))
pos = rng.standard_normal((npos, 3))

# ground truth: isotropic box of size s, per-index sum of the defining formula
expected = np.zeros(npos, complex)
for p in range(npos):
    for n in range(nstate):
        expected[p] += np.prod(np.sinc(k[n] * s / 2 / np.pi)) * F[n] * np.exp(1j * k[n] @ pos[p])

bad = 0
def check(label, got, exp):
    global bad
    ok = np.shape(got) == np.shape(exp) and np.allclose(got, exp)
    bad += not ok
    print(f"{label}: {'ok' if ok else 'WRONG'}\n  observed {np.ravel(got)[:2]}\n  expected {np.ravel(exp)[:2]}")

check("scalar s (reference form)", utils.imaging(pos, F, k, voxel_size=s, reduce=False), expected)
check("voxel_size=np.array([s])", utils.imaging(pos, F, k, voxel_size=np.array([s]), reduce=False), expected)
check("voxel_size=[s]", utils.imaging(pos, F, k, voxel_size=[s], reduce=False), expected)
sizes = np.full((npos, 1, 1), s)  # one isotropic size per voxel
check("per-voxel sizes (npos,1,1)", utils.imaging(pos, F, k, voxel_size=sizes, reduce=False), expected)

# same through the Imaging probe in a simulation (2 gradient axes)
seq = [epg.T(30, 10), epg.S([1.0, 0.5]), epg.E(5, 100, 30), epg.T(20, 10), epg.S([1.0, 0.5])]
ref = epg.simulate(seq + [epg.Imaging(pos[:, :2], voxel_size=s, reduce=False)], kgrid=0.5)
got = epg.simulate(seq + [epg.Imaging(pos[:, :2], voxel_size=np.array([s]), reduce=False)], kgrid=0.5)
check("Imaging(voxel_size=np.array([s]))", got, ref)

sys.exit(1 if bad else 0)
