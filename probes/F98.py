# probe F98 (properties C08, C16, C04): exits 1 while the defect is present, 0 when it is gone
"""C08: an integer shift applied to a well-formed state matrix whose coordinate table lists a
wavenumber in several rows (what StateMatrix.unstack() returns for a batch with one shift pattern
per entry) gives an ill-formed state matrix (Z0 complex, Z(-k) != conj(Z(k))) and wrong values.
Ground truth: the same entry simulated on its own."""
import sys
import numpy as np
import epgpy as epg

def wellformed(sm):
    s = sm.states
    okF = np.allclose(s[..., 1], s[..., ::-1, 0].conj())
    okZ = np.allclose(s[..., 2], s[..., ::-1, 2].conj())
    c = sm.coords
    okC = c is None or (np.allclose(c, -c[..., ::-1, :]) and np.allclose(c[..., sm.nstate, :], 0))
    return bool(okF and okZ and okC)

# batch of two entries, one shift pattern per entry: entry 0 is shifted at the first S only
head = [epg.T(40, 20), epg.S([[1], [0]]), epg.T(70, 50), epg.S([[0], [1]]), epg.T(50, 10)]
tail = [epg.S(-1), epg.T(30, 0), epg.S(1)]

sm = epg.StateMatrix()
for op in head:
    sm = op(sm)
entry0 = next(iter(sm.unstack()))  # public API: state matrix of batch entry 0
print("input well-formed:", wellformed(entry0), " coords:", entry0.coords[..., 0].ravel().tolist())
ok_in = wellformed(entry0)

out = entry0
for op in tail:
    out = op(out)

# ground truth: entry 0 simulated alone (its shifts are +1, none, then the tail)
ref = epg.StateMatrix()
for op in [epg.T(40, 20), epg.S(1), epg.T(70, 50), epg.T(50, 10)] + tail:
    ref = op(ref)

print("output well-formed:", wellformed(out), "(expected True)")
print("F0 observed", out.F0, " expected", ref.F0)
print("Z0 observed", out.Z0, " expected", ref.Z0, "(Z0 must be real)")
good = ok_in and wellformed(out) and np.allclose(out.F0, ref.F0) and np.allclose(out.Z0, ref.Z0)
sys.exit(0 if good else 1)
