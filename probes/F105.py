# probe F105 (properties C16): exits 1 while the defect is present, 0 when it is gone
"""StateMatrix.copy(states) (also used by `sm + x`, `sm * x`): the copied collection is updated with
the new states BEFORE the copy of the linked 'system' collection is attached (coll._linked is
assigned afterwards, without a shape update). When the new states change the batch shape, the
system arrays of the copy (weights, modulation, ... set by epg.System) keep the OLD broadcast
shape / number of axes. Ground truth: the same result built with copy() followed by
`.states = ...` (which goes through the link), and the link guarantee system.shape == sm.shape."""
import sys
import numpy as np
import epgpy as epg
from epgpy.statematrix import StateMatrix

bad = 0
def report(name, x, truth):
    global bad
    w = x.system.get("weights")                        # broadcast like every stored array
    w0 = x.system.get("weights", broadcast=False)      # the form read by the Imaging probe
    print(f"  {name:26s} sm.shape {x.shape}  system.shape {x.system.shape}  weights {w.shape}  unbroadcast {w0.shape}")
    if x is not truth:
        bad += (x.system.shape != truth.system.shape) + (w.shape != truth.system.get("weights").shape)
        bad += w0.shape != truth.system.get("weights", broadcast=False).shape

print("case 1: one weight, states grow from (1,) to (3,)")
sm = epg.System(weights=np.array([2.0]))(StateMatrix())
big = np.zeros((3, 1, 3), complex); big[..., 2] = 1
truth = sm.copy(); truth.states = big           # two steps: goes through the link (ground truth)
report("copy(states)", sm.copy(big), truth)
report("sm * [1, 1, 1]", sm * np.ones(3), truth)  # operator overloading uses copy(states)
report("copy(); .states = (truth)", truth, truth)

print("case 2: one weight per entry, states grow from (2,) to (2, 3)")
sm = epg.System(weights=np.array([1.0, 2.0]))(StateMatrix(shape=(2,)))
big = np.zeros((2, 3, 1, 3), complex); big[..., 2] = 1
truth = sm.copy(); truth.states = big
report("copy(states)", sm.copy(big), truth)
report("copy(); .states = (truth)", truth, truth)
print("violations:", bad)
sys.exit(1 if bad else 0)
