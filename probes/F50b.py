# probe F50 (properties C08, C14, C01): exits 1 while the defect is present, 0 when it is gone
"""PD(array) turns the states into a real-valued array: every later pulse / evolution raises.

PD builds a float64 equilibrium; with reset=True on a state matrix whose stored states are smaller than the
density array, update() falls back to set() and the *states* become float64 too. T, Phi, E, P then fail in their
in-place product (UFuncTypeError is not the ValueError they catch).
Ground truth: a 30 degree pulse from equilibrium with density PD gives |F0| = PD sin(30) = PD / 2 <= PD.
"""
import sys
import numpy as np
import epgpy as epg

pd = np.array([1.0, 2.0])
truth = pd * np.sin(np.deg2rad(30))
ok = True

sm = epg.PD(pd)(epg.StateMatrix())
print("after PD([1, 2]): states dtype =", sm.states.dtype, "(complex128 expected)")
ok &= np.iscomplexobj(sm.states)

for label, call in {
    "T(30, 0)(PD(pd)(StateMatrix()))": lambda: epg.T(30, 0)(sm).F0,
    "simulate([PD(pd), T(30, 0), ADC], init=StateMatrix())": lambda: epg.simulate(
        [epg.PD(pd), epg.T(30, 0), epg.ADC], init=epg.StateMatrix())[0],
    "control: simulate([PD(pd), T(30, 0), ADC])": lambda: epg.simulate([epg.PD(pd), epg.T(30, 0), epg.ADC])[0],
}.items():
    try:
        val = np.abs(call())
        good = np.allclose(val, truth)
        print(f"{label}: |F0| = {val}   expected {truth}")
    except Exception as exc:
        good = False
        print(f"{label}: raised {type(exc).__name__}: {str(exc)[:90]}   expected |F0| = {truth}")
    ok &= good
sys.exit(0 if ok else 1)
