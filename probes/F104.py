# probe F104 (properties C16): exits 1 while the defect is present, 0 when it is gone
"""ArrayCollection.set() on an existing name checks the broadcast axes of the new array against the
collection shape that still contains the array being replaced (named axes do ignore it: ignore=name).
Replacing an array by one that is compatible with everything else raises 'Incompatible shape'.
Ground truth: pop(name) followed by set(name, ...) (accepted), and the named-axis replacement."""
import sys
import numpy as np
from epgpy.statematrix import ArrayCollection, StateMatrix

bad = 0
for conv in (0, -1):
    def build():
        c = ArrayCollection(expand_axis=conv)
        c.set("w", np.ones((1, 4)), layout=[..., "n"])      # other array: compatible with any batch size
        c.set("a", np.ones((2, 4)), layout=[..., "n"])
        return c
    new = np.arange(12.0).reshape(3, 4)
    truth = build(); truth.pop("a"); truth.set("a", new, layout=[..., "n"])
    c = build()
    try:
        c.set("a", new)
        got = (c.shape, c.get("w").shape)
    except ValueError as exc:
        got = f"ValueError({exc})"
    print(f"expand_axis={conv}: set('a', (3,4)) over 'a' (2,4): {got}; pop+set: {(truth.shape, truth.get('w').shape)}")
    bad += got != (truth.shape, truth.get("w").shape)
    # the named axis of the replaced array IS ignored (as in the package's own test)
    c = ArrayCollection(expand_axis=conv); c.set("a", np.ones((2, 5)), layout=[..., "n"]); c.set("a", np.ones((2, 6)))
    print("   named axis replaced 5 -> 6 accepted:", c.axes)

# same thing through the public coords setter of StateMatrix
states = np.zeros((1, 3, 3), complex); states[0, 1, 2] = 1
k2 = np.arange(-1, 2).reshape(1, 3, 1) * np.array([1, 2]).reshape(2, 1, 1)
k3 = np.arange(-1, 2).reshape(1, 3, 1) * np.array([1, 2, 3]).reshape(3, 1, 1)
sm = StateMatrix(states, coords=k2)
try:
    sm.coords = k3
    got = sm.shape
except ValueError as exc:
    got = f"ValueError({exc})"
truth = StateMatrix(states, coords=k3).shape
print(f"StateMatrix: coords (2,3,1) replaced by (3,3,1): {got}; expected shape {truth}")
bad += got != truth
print("violations:", bad)
sys.exit(1 if bad else 0)
