# probe F115 (properties C11): exits 1 while the defect is present, 0 when it is gone
"""The virtual System operator rejects every system property (kvalue, tvalue, modulation, weights, ...):
its option table is `_std + [None]` whereas VirtualOperator.__init__ looks for `Ellipsis` to accept
free-form keywords, so `System(kvalue=...)` raises "Unknown option(s)" although the concrete
epg.System(**properties) exists only to receive such keywords."""
import sys
import numpy as np
from epgpy import sequence as sq, operators as epg, functions

ops = sq.operators
a, tau = sq.Variable("a"), sq.Variable("tau")

# ground truth: concrete operators built by hand (kvalue changes the diffusion attenuation)
hand = [epg.System(kvalue=1e5), epg.T(90.0, 90), epg.S(1), epg.D(8.0, 2e-3), epg.T(180.0, 0),
        epg.S(1), epg.D(8.0, 2e-3), epg.ADC]
truth = np.moveaxis(np.asarray(functions.simulate(hand)), 0, -1)
print("by hand, System(kvalue=1e5):", truth.ravel(), "(without System:", np.ravel(functions.simulate(hand[1:])), ")")

try:
    seq = sq.Sequence([ops.System(kvalue=1e5), ops.T(a, 90), ops.S(1), ops.D(tau, 2e-3), ops.T(2 * a, 0),
                       ops.S(1), ops.D(tau, 2e-3), "ADC"])
    sig = seq.signal(a=90.0, tau=8.0)
    print("Sequence                  :", sig.ravel())
    ok = sig.shape == truth.shape and np.allclose(sig, truth)
except Exception as err:
    print("Sequence                  :", type(err).__name__, err)
    ok = False
for props in [dict(modulation=-0.02), dict(weights=[1.0, 2.0]), dict(tvalue=2.0)]:
    try:
        built = ops.System(**props).build()
        good = built.properties.keys() == props.keys()
        print(f"virtual System({props}) -> properties {built.properties}")
    except Exception as err:
        print(f"virtual System({props}) ->", type(err).__name__, err)
        good = False
    ok = ok and good
print("OK" if ok else "MISMATCH")
sys.exit(0 if ok else 1)
