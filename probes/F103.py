# probe F103 (properties C16): exits 1 while the defect is present, 0 when it is gone
"""ArrayCollection.expand()/reduce() store the sizes of the arrays present at that moment in the
collection's default shape (`shape = list(self.shape)`), instead of only adding/removing axes.
After these arrays are popped or replaced the sizes stay: arrays are returned with a broadcast
size that no stored array and no broadcast() request has, and compatible insertions raise.
Ground truth: the common shape is the broadcast of the stored arrays (+ broadcast() requests),
i.e. the same history with expand() called before the first set()."""
import sys
import numpy as np
from epgpy.statematrix import ArrayCollection

bad = 0
for conv in (0, -1):  # prepend / append
    # history A: set a, expand, pop a, set b     history B (truth): expand, set a, pop a, set b
    A, B = ArrayCollection(expand_axis=conv), ArrayCollection(expand_axis=conv)
    A.set("a", np.ones(3)); A.expand(1); A.pop("a")
    B.expand(1); B.set("a", np.ones(3)); B.pop("a")
    print(f"expand_axis={conv}: empty collection after set/expand/pop: shape {A.shape}, expected {B.shape}")
    bad += A.shape != B.shape
    A.set("b", np.arange(1.0)); B.set("b", np.arange(1.0))
    print(f"   get('b') of a stored (1,) array: {A.get('b').shape}, expected {B.get('b').shape}")
    bad += A.get("b").shape != B.get("b").shape
    try:
        B.set("c", np.arange(2.0)); A.set("c", np.arange(2.0))
        print("   set('c', shape (2,)) accepted:", A.get("c").shape)
    except ValueError as exc:
        print("   set('c', shape (2,)) raised although nothing stored has size 3:", exc)
        bad += 1
    # replacement after expand: the old size of 'a' survives in the new 'a'
    A, B = ArrayCollection(expand_axis=conv), ArrayCollection(expand_axis=conv)
    old, new = ((2, 1), (1, 3, 2)) if conv else ((1, 2), (2, 3, 1))
    A.set("a", np.ones(old)); A.expand(2); A.set("a", np.arange(6.0).reshape(new))
    B.set("a", np.ones((1, 1))); B.expand(2); B.set("a", np.arange(6.0).reshape(new))
    print(f"   'a' {old} replaced by {new}: returned with shape {A.get('a').shape}, expected {B.get('a').shape}")
    bad += A.get("a").shape != B.get("a").shape
    # reduce
    A, B = ArrayCollection(expand_axis=conv), ArrayCollection(expand_axis=conv)
    A.set("a", np.ones((2, 2))); A.reduce(1); A.pop("a"); A.set("b", np.ones(1))
    B.set("b", np.ones(1))
    print(f"   after set/reduce/pop: get('b') {A.get('b').shape}, expected {B.get('b').shape}")
    bad += A.get("b").shape != B.get("b").shape
print("violations:", bad)
sys.exit(1 if bad else 0)
