# probe F20 (properties C02): exits 1 while the defect is present, 0 when it is gone
"""Linear-coefficient map with a complex coefficient on R's complex parameter rT (documented:
E(tau,T1,T2,g) == R(rT=tau*(1/T2+2j*pi*g), rL=tau/T1, r0=tau/T1)): the chain rule multiplies the
F+ and F- entries by the same coefficient c instead of c and conj(c)."""
import sys
import numpy as np
from epgpy import operators as ops, functions
from epgpy.diff import Jacobian

tau, T1, T2, g = 5.0, 300.0, 40.0, 0.013
pi = np.pi


def seq(relax):
    return [ops.T(40.0, 90.0), relax, ops.T(60.0, 30.0), relax, ops.ADC]


def R(tau, g, diff=True):
    order1 = {"g": {"rT": 2j * pi * tau}, "tau": {"rT": 1 / T2 + 2j * pi * g, "rL": 1 / T1, "r0": 1 / T1}}
    return ops.R(tau * (1 / T2 + 2j * pi * g), tau / T1, r0=tau / T1, **({"order1": order1} if diff else {}))


variables = ["g", "tau"]
sig_R = functions.simulate(seq(R(tau, g)))[0, 0]
sig_E = functions.simulate(seq(ops.E(tau, T1, T2, g)))[0, 0]
assert np.isclose(sig_R, sig_E)  # same signal
jac_R = functions.simulate(seq(R(tau, g)), probe=Jacobian(variables))[0, 0]
jac_E = functions.simulate(seq(ops.E(tau, T1, T2, g, order1=variables)), probe=Jacobian(variables))[0, 0]
h = 1e-6
fd = np.array([
    (functions.simulate(seq(R(tau, g + h, False))) - functions.simulate(seq(R(tau, g - h, False))))[0, 0] / (2 * h),
    (functions.simulate(seq(R(tau + h, g, False))) - functions.simulate(seq(R(tau - h, g, False))))[0, 0] / (2 * h),
])
for n, var in enumerate(variables):
    print(f"dF0/d{var}:  R + coefficient map {jac_R[n]:.6f}   E native {jac_E[n]:.6f}   finite diff of R {fd[n]:.6f}")
assert np.allclose(jac_E, fd, rtol=1e-5)
sys.exit(0 if np.allclose(jac_R, fd, rtol=1e-5) else 1)
