# probe F111 (properties C10): exits 1 while the defect is present, 0 when it is gone
"""'@' of two operands that declare first-order derivatives only (order1=...) never forms the mixed
second-order term between them (the gate `if d2mats or op2.order2` in _combine skips it), whereas
applying them in order to a state matrix that already carries second-order partials does (the documented
"automatic cross-operator" derivatives).  [exc, rlx @ ref] loses d2F0/dT2 dphi, and
exc @ (rlx @ ref) differs from (exc @ rlx) @ ref."""
import sys, warnings
import numpy as np
from epgpy import operators as ops, functions

warnings.simplefilter("ignore")
T, E, ADC, Hessian = ops.T, ops.E, ops.ADC, ops.Hessian
a, T2, phi = 30.0, 80.0, 40.0
exc = T(a, 10, order2="alpha")  # Hessian requested w.r.t. alpha, crossed with the variables of the others
rlx = E(5, 1000, T2, 0.02, order1="T2")  # first-order declarations only
ref = T(60, phi, order1="phi")
hes = Hessian(["alpha", "T2", "phi"])

flat = functions.simulate([exc, rlx, ref, ADC], probe=hes)[0, 0]
comb = functions.simulate([exc, rlx @ ref, ADC], probe=hes)[0, 0]
left = functions.simulate([(exc @ rlx) @ ref, ADC], probe=hes)[0, 0]
right = functions.simulate([exc @ (rlx @ ref), ADC], probe=hes)[0, 0]


def f0(t2, p):  # plain simulation, no derivatives
    return functions.simulate([T(a, 10), E(5, 1000, t2, 0.02), T(60, p), ADC])[0, 0]


h = 1e-2  # central finite difference of d2 F0 / dT2 dphi
fd = (f0(T2 + h, phi + h) - f0(T2 + h, phi - h) - f0(T2 - h, phi + h) + f0(T2 - h, phi - h)) / (4 * h * h)
print("d2F0/dT2 dphi   finite differences  :", fd)
print("                [exc, rlx, ref]      :", flat[1, 2])
print("                [exc, rlx @ ref]     :", comb[1, 2])
print("                (exc @ rlx) @ ref    :", left[1, 2])
print("                exc @ (rlx @ ref)    :", right[1, 2])
ok = np.isclose(flat[1, 2], fd, rtol=1e-4)
for name, val in [("rlx @ ref", comb), ("(exc@rlx)@ref", left), ("exc@(rlx@ref)", right)]:
    good = np.allclose(val, flat, rtol=1e-8, atol=1e-12)
    print(f"Hessian of {name:14s} equals the Hessian of the operands applied in order: {good}")
    ok &= good
print("OK" if ok else "MISMATCH")
sys.exit(0 if ok else 1)
