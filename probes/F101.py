# probe F101 (properties C15): exits 1 while the defect is present, 0 when it is gone
"""Imaging weights that carry an axis the state matrix does not have (several weight maps, shape
(nmap, npos), for an unbatched sequence): utils.imaging applies them IN PLACE (`im *= weights`), numpy
refuses to grow the output. A modulation array of the same shape is accepted (out of place), and the
same weights are accepted as soon as such a modulation is passed along.
Ground truth: one simulation per weight map."""
import sys
import numpy as np
import epgpy as epg

pos = np.array([0.1, 0.5, -0.3, 0.9])  # 4 voxels
W = np.array([[1.0, 2.0, 3.0, 4.0], [0.5, 0.1, 0.2, 0.3]])  # 2 weight maps (e.g. two density maps)
M0 = np.zeros((2, 4))  # a null modulation of the same shape

def run(adc, pre=()):
    seq = [*pre, epg.T(40, 20), epg.S(1), epg.C(2), epg.T(60, 70), epg.S(1), epg.C(1), adc]
    return epg.simulate(seq)[0]

exp = np.stack([run(epg.Imaging(pos, weights=w, reduce=False))[0] for w in W])  # (2, 4)
print("one simulation per weight map:\n", exp)
ok = True
for label, adc, pre in [
    ("Imaging(weights=W)", epg.Imaging(pos, weights=W, reduce=False), ()),
    ("System(weights=W)", epg.Imaging(pos, reduce=False), [epg.System(weights=W)]),
]:
    try:
        obs = run(adc, pre)
        print(label, ":\n", obs)
        ok &= obs.shape == exp.shape and np.allclose(obs, exp, atol=1e-8)
    except ValueError as exc:
        print(label, "raises:", exc)
        ok = False
obs = run(epg.Imaging(pos, weights=W, modulation=M0, reduce=False))
print("Imaging(weights=W, modulation=zeros((2,4))) works:", np.allclose(obs, exp, atol=1e-8))
print("AGREE" if ok else "DISAGREE")
sys.exit(0 if ok else 1)
