# probe F69 (properties C05, C20): exits 1 while the defect is present, 0 when it is gone
"""C05 defect 1: a diffusion tensor applied to 1-D phase states (S(1)) is contracted by numpy
broadcasting of the 1x1 b-matrix against the 3x3 tensor: exp(-b * sum(all entries of D)).
A scalar diffusivity d and the isotropic tensor d*eye(3) give different signals (factor 3 in the exponent)."""
import sys
import numpy as np
from epgpy import operators as ops, functions

kv, tau, d = 3e4, 2.0, 1.5  # rad/m, ms, mm^2/s
T, S, D, ADC = ops.T, ops.S, ops.D, ops.ADC


def echo(Dv):  # spin echo, diffusion during both gradient lobes + a gradient-free delay
    seq = [T(90, 90), S(1), D(tau, Dv, 1), D(tau, Dv), T(180, 0), D(tau, Dv), S(1), D(tau, Dv, 1), ADC]
    return abs(np.ravel(functions.simulate(seq, kvalue=kv))[0])


# ground truth: b = 2/3 k^2 tau (two ramps) + 2 k^2 tau (two plateaus), k along x
b = (2 / 3 + 2) * (kv * 1e-3) ** 2 * tau * 1e-3  # s/mm^2
Dani = np.array([[1.5, 0.3, 0.1], [0.3, 1.0, 0.2], [0.1, 0.2, 0.5]])
cases = {
    "scalar d": (d, np.exp(-b * d)),
    "d*eye(3)": (d * np.eye(3), np.exp(-b * d)),
    "anisotropic (Dxx=1.5)": (Dani, np.exp(-b * Dani[0, 0])),
}
bad = False
for name, (Dv, expected) in cases.items():
    obs = echo(Dv)
    ok = np.isclose(obs, expected, rtol=1e-6)
    bad |= not ok
    print(f"{name:24s} observed {obs:.6e}  expected {expected:.6e}  {'ok' if ok else 'WRONG'}")
print("exp(-b*3d) =", np.exp(-3 * b * d), " exp(-b*sum(Dani)) =", np.exp(-b * Dani.sum()))
sys.exit(1 if bad else 0)
