# probe F93 (properties C19, C11): exits 1 while the defect is present, 0 when it is gone
"""Sequence.jacobian / hessian w.r.t. a variable that also sets the duration of a Wait (or Offset) operator is
rejected ('Cannot differentiate Wait ...'), although Wait does not act on the state: its contribution to every
derivative is exactly zero.  The other columns can be obtained alone, but not together with that variable."""
import sys
import numpy as np
from epgpy import sequence as sq

T, E, S, Wait, ADC = sq.T, sq.E, sq.S, sq.Wait, sq.ADC
def make(wait):
    return sq.Sequence([T(90, 90), S(1), E("tau", 1000, "T2"), T(160, 0), S(1), E("tau", 1000, "T2"), ADC,
                        Wait(wait), S(1), E("tau", 1000, "T2"), T(160, 0), S(1), E("tau", 1000, "T2"), ADC])
vals = dict(tau=5.0, T2=30.0)
seq = make("tau")          # dead time tied to the echo spacing
ref = make(5.0)            # same operators, constant dead time: same signal, same derivatives

# ground truth: finite differences of seq.signal, and the Jacobian of the sequence with a constant Wait
h = 1e-5
fd = np.stack([(seq.signal(**{**vals, v: vals[v] + h}) - seq.signal(**{**vals, v: vals[v] - h})) / 2 / h
               for v in ("tau", "T2")], axis=-1)
sig0, jac0 = ref.jacobian(["tau", "T2"], **vals)
print("adc times      :", seq.adc_times(**vals))
print("finite diff.   :", fd.ravel())
print("constant Wait  :", jac0.ravel())
ok = np.allclose(fd, jac0, atol=1e-7)

_, jT2 = seq.jacobian(["T2"], **vals)          # the T2 column alone works
print("T2 alone       :", jT2.ravel())
ok &= np.allclose(jT2[..., 0], jac0[..., 1])
for variables in (["tau"], ["tau", "T2"]):
    try:
        _, jac = seq.jacobian(variables, **vals)
        print(variables, ":", jac.ravel())
        ok &= np.allclose(jac[..., 0], jac0[..., 0])
    except ValueError as exc:
        print(variables, "raises:", exc)
        ok = False
sys.exit(0 if ok else 1)
