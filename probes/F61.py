# probe F61 (properties C09, C12): exits 1 while the defect is present, 0 when it is gone
"""simulate(seq, probe=<Probe>) drops the post-processing of the probe it is given (Probe(post=...), Adc(phase=...)):
the post-processing of the sequence's own ADC is used instead of (not in addition to) the substituted probe's."""
import sys
import numpy as np
import epgpy as epg

seq = [epg.T(90, 0), epg.ADC]                      # F0 = -1j at the ADC
sm = epg.T(90, 0)(epg.StateMatrix())               # the same state, built by hand

cases = {
    "Probe('F0', post=np.abs)": epg.Probe("F0", post=np.abs),
    "Adc('F0', phase=90)": epg.Adc("F0", phase=90),
}
ok = True
for name, pb in cases.items():
    truth = np.asarray(pb.acquire(sm))             # ground truth: the probe acquiring that very state
    obs = epg.simulate(seq, probe=pb)[0]
    print(f"{name:26s} probe.acquire(state) = {truth.ravel()}   simulate(seq, probe=probe) = {obs.ravel()}")
    ok &= np.allclose(obs, truth)
print("OK" if ok else "MISMATCH")
sys.exit(0 if ok else 1)
