# probe F119 (properties C02, C07): exits 1 while the defect is present, 0 when it is gone
"""C07 defect 2: `axes=` moves the parameter arrays of an operator but not the array coefficients of its
coefficient-map declaration (order1={variable: {parameter: d parameter / d variable}}).

alpha = b1 * alpha0 with alpha0 of shape (3,) placed on grid axis 1 by axes=1; d alpha / d b1 = alpha0.
The coefficient stays on grid axis 0: in a (3, 3) grid the Jacobian w.r.t. b1 is silently paired with the
wrong axis (other grid sizes raise). Ground truth: the scalar simulations of every grid index, and central
finite differences of the vectorised signal.
"""
import sys
import numpy as np
import epgpy as epg

alpha0 = np.array([30.0, 60.0, 90.0])  # on grid axis 1 (axes=1)
T2 = np.array([40.0, 60.0, 80.0])  # on grid axis 0


def sequence(b1, a0, t2, deriv=True, **kw):
    d = {"order1": {"b1": {"alpha": a0}}} if deriv else {}
    rf1, rf2 = epg.T(b1 * a0, 90, **d, **kw), epg.T(b1 * a0, 0, **d, **kw)
    rlx = epg.E(5, 1000, t2)
    return [rf1, rlx, epg.S(1), rf2, rlx, epg.S(1), epg.ADC]


probes = ["F0", epg.Jacobian(["b1"])]
sig, jac = epg.simulate(sequence(1.0, alpha0, T2, axes=1), probe=probes)
jac = jac[0, ..., 0]
print("signal shape", sig.shape, "(grid: T2 x alpha0)")

# ground truth 1: scalar simulations
truth = np.zeros((3, 3), dtype=complex)
for i in range(3):
    for j in range(3):
        truth[i, j] = epg.simulate(sequence(1.0, alpha0[j], T2[i]), probe=probes)[1][0, 0, 0]
# ground truth 2: finite differences
h = 1e-6
fdiff = (
    epg.simulate(sequence(1 + h, alpha0, T2, deriv=False, axes=1))
    - epg.simulate(sequence(1 - h, alpha0, T2, deriv=False, axes=1))
)[0] / (2 * h)

np.set_printoptions(precision=5, suppress=True)
print("d F0 / d b1, vectorised (axes=1):\n", jac.real)
print("scalar simulations:\n", truth.real)
print("finite differences:\n", fdiff.real)
ok = np.allclose(jac, truth, atol=1e-8) and np.allclose(jac, fdiff, atol=1e-5)
print("max |vectorised - scalar| =", np.abs(jac - truth).max())
sys.exit(0 if ok else 1)
