# probe F133 (properties C13): exits 1 while the defect is present, 0 when it is gone
"""C13 defect 1: the state cap (max_nstate / nmax) is also applied to the accumulated-TIME column.

C(tau) with an integer tau takes the integer n-D back-end (shiftnd); there the cap n is tested on every
coordinate column, the 4th one (accumulated time, not a wavenumber) included.  The k = 0 state itself is
deleted as soon as its time label exceeds n: a plain FID vanishes although no gradient is played at all
(accumulated |shift| per component = 4 <= 2n+1 = 7, so the acquisition must equal the untruncated one).
Ground truth: the untruncated simulation, the same sequence with the float C(1.0), and exp(-t/T2).
"""
import sys
import numpy as np
import epgpy as epg

n, T2 = 3, 100.0
def fid(tau, **opts):
    seq = [epg.T(90, 90)] + [epg.C(tau), epg.E(1, 1000, T2), epg.ADC] * 6
    out = epg.simulate(seq, asarray=False, **opts)
    return np.array([np.sum(v) for v in out])  # F0 summed over the time labels

capped = fid(1, max_nstate=n)              # integer time steps, cap n
free = fid(1)                              # same, untruncated
capped_float = fid(1.0, max_nstate=n, kgrid=0.1)  # real-valued time steps, same cap
exact = np.exp(-np.arange(1, 7) / T2)

print("acq  capped(int C)  untruncated  capped(float C)  exp(-t/T2)")
for i in range(6):
    print(f"{i+1:3d}  {abs(capped[i]):12.6f}  {abs(free[i]):11.6f}  {abs(capped_float[i]):14.6f}  {exact[i]:10.6f}")

# second form: the nmax argument of the operator
seq = [epg.T(90, 90)] + [epg.C(1, nmax=n), epg.ADC] * 6
capped2 = np.array([np.sum(v) for v in epg.simulate(seq, asarray=False)])
print("C(1, nmax=3):", np.abs(capped2).round(6))

# every acquisition is within the horizon 2n+1 = 7 of every component
ok = np.allclose(capped, free) and np.allclose(capped, exact) and np.allclose(np.abs(capped2), 1)
print("OK" if ok else "DEFECT: the k=0 signal is removed by the cap on the time label")
sys.exit(0 if ok else 1)
