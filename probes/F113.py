# probe F113 (properties C11): exits 1 while the defect is present, 0 when it is gone
"""An ndarray constant as LEFT operand of + - * / ** with a Variable/Expression is not an expression tree:
numpy broadcasts over the (non-array) Expression and returns an object array of Expressions, which the
virtual operator then wraps as a Constant.  `b1 * arr` works, `arr * b1` does not (the variable is lost,
signal() raises, jacobian() reports an unknown variable)."""
import sys
import numpy as np
from epgpy import sequence as sq, operators as epg, functions

ops = sq.operators
b1, tau = sq.Variable("b1"), sq.Variable("tau")
alphas = np.array([30.0, 60.0])
taus = np.array([1.0, 2.0])

# ground truth: concrete operators built by hand with the evaluated arguments
truth = np.moveaxis(np.asarray(functions.simulate(
    [epg.T(alphas * 0.9, 90), epg.E(taus + 5.0, 1000, 100), epg.ADC])), 0, -1)

def run(seq):
    try:
        return seq.signal(b1=0.9, tau=5.0), sorted(map(str, seq.variables))
    except Exception as exc:
        return f"{type(exc).__name__}: {exc}", sorted(map(str, seq.variables))

right = sq.Sequence([ops.T(b1 * alphas, 90), ops.E(tau + taus, 1000, 100), "ADC"])
left = sq.Sequence([ops.T(alphas * b1, 90), ops.E(taus + tau, 1000, 100), "ADC"])

print("type(alphas * b1) =", type(alphas * b1).__name__, "| type(b1 * alphas) =", type(b1 * alphas).__name__)
print("ground truth          :", truth.ravel())
ok = True
for label, seq in [("b1*alphas, tau+taus", right), ("alphas*b1, taus+tau", left)]:
    sig, variables = run(seq)
    good = isinstance(sig, np.ndarray) and sig.shape == truth.shape and np.allclose(sig, truth)
    good = good and variables == ["b1", "tau"]
    print(f"{label:22s}:", sig.ravel() if isinstance(sig, np.ndarray) else sig, "| variables:", variables,
          "OK" if good else "MISMATCH")
    ok = ok and good
sys.exit(0 if ok else 1)
