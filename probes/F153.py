# probe F153 (properties C07, C02): exits 1 while the defect is present, 0 when it is gone
"""e01f4b1: with an unsorted tuple of axes, lower-rank coefficients / durations no longer follow the operator."""
import sys
import numpy as np
import epgpy as epg

rng = np.random.default_rng(1)
T1 = 500 + 1000 * rng.random((3, 3))
T2 = 50 + 100 * rng.random((3, 3))
tau = np.array([4.0, 6.0, 9.0])  # one evolution time per index of the FIRST parameter axis
c = np.array([1.0, 2.0, 3.0])  # one coefficient per index of the FIRST parameter axis


def run(axes):
    op = epg.E(tau, T1, T2, 0.01, axes=axes, order1={"v": {"T1": c}}, duration=True)
    sm = op(epg.T(30, 20)(epg.StateMatrix([1, 1, 0.5])))
    dur = np.asarray(op.duration)
    dur = dur.reshape(dur.shape + (1,) * (len(op.shape) - dur.ndim))  # first-axis alignment
    return op, np.asarray(sm.order1["v"].states), np.broadcast_to(dur, op.shape)


op_s, d_s, dur_s = run((1, 3))
op_u, d_u, dur_u = run((3, 1))
# the operator itself ignores the order of the tuple (set_axes): same arrays for (3, 1) and (1, 3)
same_op = np.allclose(op_s.arr, op_u.arr)
# ground truth per index: first parameter axis is grid axis 1 in both cases
err = 0
for i in range(3):
    for j in range(3):
        o = epg.E(tau[i], T1[i, j], T2[i, j], 0.01, order1={"v": {"T1": c[i]}})
        r = o(epg.T(30, 20)(epg.StateMatrix([1, 1, 0.5])))
        err = max(err, np.abs(d_u[0, i, 0, j] - r.order1["v"].states[0]).max())
        err = max(err, abs(dur_u[0, i, 0, j] - tau[i]))
print("operator arrays identical for axes=(3, 1) and (1, 3):", bool(same_op))
print("axes=(3, 1): duration shape", np.shape(op_u.duration), "| axes=(1, 3):", np.shape(op_s.duration))
print("axes=(3, 1): max deviation of derivative/duration from the per-index simulations:", err)
print("expected: 0 (derivative and duration follow the operator's first axis, as before the commit)")
sys.exit(1 if (same_op and err > 1e-9) else 0)
