# probe F49 (properties C03, C19, C09, C08): exits 1 while the defect is present, 0 when it is gone
"""Cross second derivatives are wrong when the state matrix gains an axis at an operator
(simulate(init=StateMatrix()) or operators applied one by one): the first-order partials of
lower rank are not expanded before the *derived* operator is applied to them."""
import sys
import numpy as np
import epgpy as epg

al = np.array([20.0, 40, 60, 80])  # flip angles: axis 0
T2 = np.array([[30.0, 50, 70, 90]])  # T2 values: axis 1
tau = 5.0
rf = epg.T(al, 90, order2="alpha")
rlx = epg.E(tau, 500, T2, order2="T2")
seq = [rf, rlx, rlx, epg.ADC]
probes = [epg.ADC, epg.Hessian(["alpha", "T2"])]

# state matrix of rank 1 given by the caller: it grows to rank 2 at `rlx`
sig, hes = epg.simulate(seq, probe=probes, init=epg.StateMatrix())
sig, hes = sig[0], hes[0]  # single ADC

# ground truth: F0 = c sin(alpha) exp(-2 tau / T2)
# d2F0/dalpha dT2 = F0 * (pi/180) cot(alpha) * 2 tau / T2^2
a = np.deg2rad(al)[:, None]
ref = sig * (np.pi / 180) / np.tan(a) * 2 * tau / T2**2
ref_aa = -sig * (np.pi / 180) ** 2
got = hes[..., 0, 1]

np.set_printoptions(precision=3, linewidth=150)
print("signal shape", sig.shape, "hessian shape", hes.shape)
print("H[alpha,alpha] max rel. error:", np.abs(hes[..., 0, 0] - ref_aa).max() / np.abs(ref_aa).max())
print("H[alpha,T2] observed (abs):\n", np.abs(got))
print("H[alpha,T2] expected (abs):\n", np.abs(ref))
err = np.abs(got - ref).max() / np.abs(ref).max()
print("H[alpha,T2] max rel. error:", err)

# same sequence, full-rank state matrix allocated by simulate: correct
hes2 = epg.simulate(seq, probe=probes[1])[0]
print("without init=: max rel. error:", np.abs(hes2[..., 0, 1] - ref).max() / np.abs(ref).max())
sys.exit(1 if err > 1e-8 else 0)
