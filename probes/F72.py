# probe F72 (properties C06): exits 1 while the defect is present, 0 when it is gone
"""X: the matrix exponential takes the Hermitian shortcut (eigh) whenever np.allclose(A, A^H) holds
(rtol=1e-5): for fast exchange the chemical-shift term (imaginary diagonal) or a small asymmetry of the
kinetic matrix is below that tolerance and is silently dropped."""
import sys
import numpy as np
from epgpy import operators as ops, statematrix

SM = statematrix.StateMatrix
bad = False

# A. symmetric 2-site exchange k = 1e4 /ms, chemical shifts 2 Hz and 6 Hz, tau = 10 ms
tau, k, g = 10.0, 1e4, np.array([0.002, 0.006])
obs = ops.X(tau, k, g=g)(SM([1, 1, 0])).states[:, 0, 0]
# closed form: A = (-k + i*wm) I + B,  B = [[i d, k], [k, -i d]],  B^2 = (k^2 - d^2) I
w = 2 * np.pi * g
wm, d = w.mean(), (w[0] - w[1]) / 2
s = np.sqrt(k**2 - d**2)
ep, em = np.exp(-(d**2) / (s + k) * tau), np.exp(-(s + k) * tau)
B = np.array([[1j * d, k], [k, -1j * d]])
expA = np.exp(1j * wm * tau) * ((ep + em) / 2 * np.eye(2) + (ep - em) / (2 * s) * B)
ref = expA @ np.array([1, 1])
print("A. F0 after X(10, 1e4, g=[0.002, 0.006]) on F0=[1, 1]")
print("   observed    :", obs)
print("   ground truth:", ref, "(phase %.4f rad = 2 pi mean(g) tau)" % np.angle(ref[0]))
bad |= not np.allclose(obs, ref, atol=1e-6)

# B. no relaxation: total magnetization must be conserved. densities 1+e : 1 (detailed balance)
e, tau = 5e-6, 1000.0
K = np.array([[1.0, -(1 + e)], [-1.0, 1 + e]])  # columns sum to 0, K @ [1+e, 1] = 0
sm = SM([[[0, 0, 0.2]], [[0, 0, 0.9]]], density=[1 + e, 1])
out = ops.X(tau, K)(sm)
print("B. total Z after X(1000, K) without relaxation, K = [[1, -(1+e)], [-1, 1+e]], e = 5e-6")
print("   observed    :", out.Z0.sum().real)
print("   ground truth:", sm.Z0.sum().real)
bad |= not np.isclose(out.Z0.sum().real, sm.Z0.sum().real, atol=1e-9)

sys.exit(1 if bad else 0)
