# probe F90 (properties C05): exits 1 while the defect is present, 0 when it is gone
"""C05 defect 5: with a per-axis kvalue (3-vector, accepted by StateMatrix.k / S) the ramp form
D(tau, D, k) multiplies k by the WHOLE kvalue vector instead of the entries of the axes in use:
1-D and 2-D shifts raise in D although S and the gradient-free D(tau, D) work on the same states."""
import sys
import numpy as np
from epgpy import operators as ops, functions

T, S, D, ADC = ops.T, ops.S, ops.D, ops.ADC
kvs = np.array([3e4, 2e4, 1e4])  # rad/m per unit shift along x, y, z
tau, d = 2.0, 1.5
Dm = np.array([[1.5, 0.3], [0.3, 1.0]])


def echo(s, dop):
    seq = [T(90, 90), s, dop, T(180, 0), s, dop, ADC]
    return abs(np.ravel(functions.simulate(seq, kvalue=kvs))[0])


def expected(kvec, Dten, ramp):  # spin echo: two ramps 0->k, -k->0 (b = 2/3 k k^T tau) or one plateau at k (k k^T tau)
    k = np.asarray(kvec) * 1e-3
    return np.exp(-(2 / 3 if ramp else 1) * tau * 1e-3 * k @ Dten @ k)


cases = [
    ("1-D  S(1), D(tau,d)      ", lambda: echo(S(1), D(tau, d)), expected([kvs[0]], d * np.eye(1), False)),
    ("1-D  S(1), D(tau,d,1)    ", lambda: echo(S(1), D(tau, d, 1)), expected([kvs[0]], d * np.eye(1), True)),
    ("2-D  S([1,1]), D(tau,Dm) ", lambda: echo(S([1, 1]), D(tau, Dm)), expected(kvs[:2], Dm, False)),
    ("2-D  S([1,1]), D(..,[1,1])", lambda: echo(S([1, 1]), D(tau, Dm, [1, 1])), expected(kvs[:2], Dm, True)),
    ("3-D  S([1,1,0]), D(..,k) ", lambda: echo(S([1, 1, 0]), D(tau, d, [1, 1, 0])), expected(kvs * [1, 1, 0], d * np.eye(3), True)),
]
bad = False
for name, func, exp in cases:
    try:
        obs = func()
        ok = np.isclose(obs, exp, rtol=1e-6)
        print(f"{name} observed {obs:.6e}  expected {exp:.6e}  {'ok' if ok else 'WRONG'}")
    except Exception as exc:
        ok = False
        print(f"{name} RAISED {type(exc).__name__}: {exc}  expected {exp:.6e}")
    bad |= not ok
sys.exit(1 if bad else 0)
