# probe F28b (properties C12): exits 1 while the defect is present, 0 when it is gone
"""modify(att=...) rebuilds T operators without their `axes=` placement."""
import sys
import numpy as np
import epgpy as epg

alpha = np.array([10.0, 20.0, 30.0])
T2 = np.array([50.0, 100.0, 150.0])
att = 0.5
# flip angles on batch axis 1, T2 on batch axis 0 -> sequence shape (3, 3)
seq = [epg.T(alpha, 90, axes=1), epg.E(5, 1000, T2), epg.ADC]
print("shape of the sequence       :", epg.getshape(seq))

mod = epg.modify(seq, att=att)
print("shape after modify(att=0.5) :", epg.getshape(mod))
obs = np.asarray(epg.simulate(mod)[0])

# ground truth: one scalar simulation per (T2[i], alpha[j]) with the flip angle scaled by att
ref = np.array(
    [
        [epg.simulate([epg.T(att * a, 90), epg.E(5, 1000, t2), epg.ADC])[0][0] for a in alpha]
        for t2 in T2
    ]
)
print("observed |F0|, shape", obs.shape)
print(np.abs(obs))
print("expected |F0|, shape", ref.shape)
print(np.abs(ref))

ok = obs.shape == ref.shape and np.allclose(obs, ref)
print("AGREE" if ok else "DISAGREE")
sys.exit(0 if ok else 1)
