# probe F119 (properties C02, C07): exits 1 while the defect is present, 0 when it is gone
"""order1 coefficient map with ARRAY coefficients on an operator placed with axes=:
the coefficients are not moved with the parameter they belong to (they stay on grid axis 0).

Grid: T2[i] on axis 0 (operator E), flip angle alpha[j] on axis 1 (T(..., axes=1)).
The variable u drives the flip angles with d(alpha[j])/du = c[j]  (one coefficient per flip angle,
given with the shape of the parameter, as Sequence does for array-valued expressions).
Ground truth: the scalar simulation of every grid entry (i, j) with the scalar coefficient c[j],
cross-checked by central finite differences."""
import sys
import numpy as np
import epgpy as epg

T2s, alphas, c = [40.0, 80.0], [30.0, 50.0], [1.0, 3.0]


def seq(T2, alpha, **kw):
    rf = epg.T(alpha, 0, **kw)
    return [rf, epg.S(1), epg.E(5, 800, T2), rf, epg.S(-1), epg.ADC]


# vectorised simulation
jac = epg.simulate(
    seq(T2s, alphas, axes=1, order1={"u": {"alpha": np.array(c)}}), probe=epg.Jacobian(["u"])
)[0, ..., 0]

# scalar simulations
ref = np.zeros((2, 2), dtype=complex)
fdiff = np.zeros((2, 2), dtype=complex)
h = 1e-6
for i, T2 in enumerate(T2s):
    for j, alpha in enumerate(alphas):
        ref[i, j] = epg.simulate(seq(T2, alpha, order1={"u": {"alpha": c[j]}}), probe=epg.Jacobian(["u"]))[0, 0, 0]
        fdiff[i, j] = (epg.simulate(seq(T2, alpha + c[j] * h))[0, 0] - epg.simulate(seq(T2, alpha - c[j] * h))[0, 0]) / (2 * h)

print("dF0/du, vectorised (T2 index i, alpha index j):\n", jac.imag)
print("dF0/du, scalar simulations with coefficient c[j]:\n", ref.imag)
print("dF0/du, finite differences:\n", fdiff.imag)
ok = jac.shape == ref.shape and np.allclose(jac, ref, rtol=1e-6, atol=1e-10) and np.allclose(ref, fdiff, rtol=1e-4, atol=1e-8)
print("AGREE" if ok else "DISAGREE: entry (i, j) is multiplied by c[i] instead of c[j]")
sys.exit(0 if ok else 1)
