# probe F95 (properties C20): exits 1 while the defect is present, 0 when it is gone
"""Real-valued (float) shifts need a grid: without one S raises AttributeError('kgrid not set').
A grid of size 0 (kgrid=0, 0.0, False, or a per-axis grid with a zero entry) is no grid either, but it is accepted:
the wavenumbers are divided by zero, every phase state is cast into the same cell and merged, i.e. the gradients are
silently ignored (only numpy RuntimeWarnings are emitted).
Ground truth: the same sequence on valid grids (1e-2, 1e-4, 1e-6 agree with each other); an exception is fine too."""
import sys, warnings
import numpy as np
import epgpy as epg

warnings.simplefilter("ignore")
bad = False


def seq(**kw):  # three pulses, three float shifts: echoes and stimulated echoes
    return [epg.T(30, 90), epg.S(0.5, **kw), epg.T(40, 0), epg.S(0.25, **kw), epg.T(50, 10), epg.S(0.25, **kw), epg.ADC]


ref = [epg.simulate(seq(), kgrid=g)[0, 0] for g in (1e-2, 1e-4, 1e-6)]
assert np.allclose(ref, ref[0])
try:
    epg.simulate(seq())
    print("no grid at all: ACCEPTED")
except AttributeError as exc:
    print(f"no grid at all          : AttributeError({exc})   <- the documented rejection")
print(f"valid grids 1e-2..1e-6  : F0 = {ref[0]:.5f}")

spoiled = lambda **kw: [epg.T(30, 90), epg.G(1, [0, 5, 0], **kw), epg.ADC]  # 3-d float shift, F0 must vanish
batched = lambda **kw: [epg.T(30, 90), epg.S([[0.5], [0.25]], **kw), epg.ADC]  # one float shift per batch entry
cases = {
    "simulate(kgrid=0)       ": (lambda: epg.simulate(seq(), kgrid=0), ref[0]),
    "simulate(kgrid=False)   ": (lambda: epg.simulate(seq(), kgrid=False), ref[0]),
    "S(k, kgrid=0.0)         ": (lambda: epg.simulate(seq(kgrid=0.0)), ref[0]),
    "G(.., kgrid=[1, 0, 1])  ": (lambda: epg.simulate(spoiled(kgrid=[1, 0, 1])), epg.simulate(spoiled(kgrid=1))),
    "batched S(k, kgrid=0)   ": (lambda: epg.simulate(batched(kgrid=0)), epg.simulate(batched(kgrid=1e-3))),
}
for label, (func, expected) in cases.items():
    try:
        obs = func()
    except Exception as exc:
        print(f"{label}: rejected, {type(exc).__name__}: {exc} -> fine")
        continue
    ok = np.allclose(obs, expected, atol=1e-8)
    print(f"{label}: ACCEPTED, F0 = {np.round(np.ravel(obs), 5)}, valid grid gives {np.round(np.ravel(expected), 5)}"
          f" (or an exception)  {'ok' if ok else 'MISMATCH'}")
    bad |= not ok
sys.exit(1 if bad else 0)
