# probe F16b (properties C13): exits 1 while the defect is present, 0 when it is gone
"""Jacobian with n-D (or real-valued) shifts: the partial-derivative state matrices are
pruned independently of the main one, then added row-by-row without matching wavenumbers."""
import sys
import numpy as np
from epgpy import operators as ops, functions

T, E, S, ADC = ops.T, ops.E, ops.S, ops.ADC
PROBE = [ADC, ops.Jacobian(["alpha"])]


def seq(a1, a2, k, da=0.0, **kw):
    """two pulses with flip angles a1+da, a2+da; variable 'alpha' = da"""
    return [T(a1 + da, 90, order1="alpha"), S(k, **kw), E(10, 1000, 100),
            T(a2 + da, 0, order1="alpha"), S(k, **kw), E(10, 1000, 100), ADC]


def fdiff(a1, a2, k, h=1e-4, **opt):
    sp = functions.simulate(seq(a1, a2, k, +h), **opt)
    sm = functions.simulate(seq(a1, a2, k, -h), **opt)
    return ((sp - sm) / (2 * h)).ravel()[0]


fail = False
cases = [("int 3-D shift", [1, 0, 0], {}), ("real 3-D shift", [1.0, 0, 0], {"kgrid": 1e-3})]
for a1, a2, what in [(180.0, 180.0, "inversion, spoiler, 2nd pulse"), (90.0, 180.0, "spin echo")]:
    # ground truth: same physics with the scalar 1-D shift, and finite differences
    _, jref = functions.simulate(seq(a1, a2, 1), probe=PROBE)
    jref = jref.ravel()[0]
    print(f"--- {what}: T({a1:g},90) S E T({a2:g},0) S E ADC, d(F0)/d(alpha)")
    print(f"  reference S(1)             : {jref:.6f}   finite diff: {fdiff(a1, a2, 1):.6f}")
    for label, k, opt in cases:
        fd = fdiff(a1, a2, k, **opt)
        try:
            _, jac = functions.simulate(seq(a1, a2, k), probe=PROBE, **opt)
            jac = jac.ravel()[0]
            ok = abs(jac - jref) < 1e-6
            print(f"  S({k}) ({label}): {jac:.6f}   finite diff: {fd:.6f}   {'ok' if ok else 'WRONG'}")
        except Exception as exc:
            ok = False
            print(f"  S({k}) ({label}): raised {type(exc).__name__}: {exc}   finite diff: {fd:.6f}")
        fail |= not ok
# disabling the pruning of the shift restores the correct value
_, j0 = functions.simulate(seq(180.0, 180.0, [1, 0, 0], prune=0), probe=PROBE)
print(f"  with S([1,0,0], prune=0)    : {j0.ravel()[0]:.6f} (correct)")
sys.exit(1 if fail else 0)
