#!/venv/bin/python
"""Writes MANIFEST.json from harness/registry.py (claimed properties) + the fixed text below."""
import json, os, sys
sys.path.insert(0, os.path.dirname(os.path.abspath(__file__)))
sys.path.insert(0, os.path.join(os.path.dirname(os.path.abspath(__file__)), "corr"))
import registry

ALL = [f"C{i:02d}" for i in range(1, 21)]
PENDING = "model and theorems for this property are not built yet in this revision of /verif (see DESIGN.md section 8); not claimed until its core theorems are proved"

checks = []
for pid in ALL:
    if pid not in registry.PROPS:
        continue
    spec = registry.PROPS[pid]
    checks.append({
        "property_id": pid,
        "quick_cmd": f"./check {pid} --tier quick",
        "thorough_cmd": f"./check {pid} --tier thorough",
        "evidence_file": f"evidence/{pid}.json",
        "replay_cmd_template": f"./check {pid} --replay {{path}}",
        "engine": "lean4-proof+tie",
        "level_claimed": {
            "category": "proof",
            "text": spec.get("level_text", "Lean 4 theorems about a formal model of the code, tied to /repo by a translator regenerated on every run and by a model-vs-implementation correspondence run"),
            "design_ref": f"DESIGN.md section 5 ({pid})",
        },
        "level_note": spec.get("level_note", "trusted: Lean kernel + Mathlib; axioms propext/Classical.choice/Quot.sound only; translator and correspondence harness; numpy/IEEE/CPython semantics are modelled, not verified (DESIGN.md sections 4 and 6)"),
        "technique": spec.get("technique", "machine-checked proof in Lean 4 (induction over operator lists) + regenerated tie obligations + differential correspondence"),
    })
manifest = {
    "version": 1,
    "setup_cmd": "./setup.sh",
    "hooks": {
        "guard": "EPGPY_VERIF",
        "enable": "no hook is needed: every observation point is a public attribute; checks import /repo's working tree directly (PYTHONPATH=/repo)",
        "baseline_off_cmd": "cd /repo && /venv/bin/python -m pytest -ra -q -p no:cacheprovider --timeout=900 --continue-on-collection-errors",
        "source_commits": [],
        "add_only": True,
    },
    "engines": [
        {"name": "lean4-proof+tie", "path": "lean/", "serves_properties": [c["property_id"] for c in checks],
         "kind_free_text": "Lean 4.33 + Mathlib: executable polymorphic model (Float for execution, complex numbers for proofs), theorems in lean/EpgVerif/Props, translator-generated tie obligations in lean/EpgVerif/Gen, lean_exe Driver for correspondence"},
    ],
    "checks": checks,
    "not_applicable": [{"property_id": p, "reason": registry.NOT_CLAIMED.get(p, PENDING)} for p in ALL if p not in registry.PROPS],
    "notes": "Genuine defects found and repaired in /repo are listed in known_findings.json ('fixed'); see DESIGN.md section 7.",
}
json.dump(manifest, open(os.path.join(registry.VERIF, "MANIFEST.json"), "w"), indent=1)
print("claimed:", [c["property_id"] for c in checks])
