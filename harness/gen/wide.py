"""Wide program generator over *all* epgpy operator kinds (1-D / n-D integer / real-valued gridded
shifts, G, C, D, X, truncation, pruning, batch shapes).  Programs are JSON-able dict lists; `build`
turns them into epgpy objects.  Used by the searches that test a property on the real code."""
import numpy as np

from prog import pick


def arr_or_scalar(r, lo, hi, shape, special=()):
    """scalar, or array with the given batch shape"""
    if shape is None:
        return pick(r, lo, hi, special)
    arr = r.uniform(lo, hi, size=shape)
    if special:  # boundary values inside a batch (e.g. an ideal 180 degree pulse next to generic ones)
        mask = r.random(size=shape) < 0.35
        arr = np.where(mask, np.asarray(special)[r.integers(len(special), size=shape)], arr)
    return arr.tolist()


def gen_wide(r, length, mode=None, batch=None, allow=None, lossless=False):
    """mode: '1d' | 'nd' | 'float' | 'grad' | 'mixed' ; batch: None or leading shape tuple"""
    mode = mode or ["1d", "nd", "float", "grad", "mixed"][r.integers(5)]
    kdim = 1 if mode == "1d" else int(r.integers(1, 4))
    opts = {}
    if mode in ("float", "grad", "mixed") or r.random() < 0.2:
        opts["kgrid"] = float([0.01, 0.1, 0.5, 1.0][r.integers(4)])
    if r.random() < 0.3 and not lossless:
        opts["max_nstate"] = int(r.integers(1, 6))
    if r.random() < 0.3 and not lossless:
        opts["prune"] = float([1e-8, 1e-4, 1e-2][r.integers(3)])
    prog_ = []
    kinds = ["T", "E", "S", "T", "S", "E", "Phi", "P", "R", "SPOILER", "RESET", "PD", "WAIT", "D"]
    if allow:
        kinds = [k for k in kinds if k in allow]
    have_float = False
    last_shift = None
    for _ in range(length):
        k = kinds[r.integers(len(kinds))]
        bshape = batch if (batch and r.random() < 0.5) else None
        if k == "T":
            prog_.append({"op": "T", "alpha": arr_or_scalar(r, -180, 180, bshape, (0, 90, 180)), "phi": arr_or_scalar(r, -180, 180, None, (0, 90))})
        elif k == "Phi":
            prog_.append({"op": "Phi", "phi": arr_or_scalar(r, -180, 180, bshape)})
        elif k == "E":
            prog_.append({"op": "E", "tau": arr_or_scalar(r, 0.1, 30, None, (0.0,)), "T1": arr_or_scalar(r, 100, 2000, bshape),
                          "T2": arr_or_scalar(r, 10, 150, bshape), "g": arr_or_scalar(r, -0.1, 0.1, None, (0.0,))})
        elif k == "P":
            prog_.append({"op": "P", "tau": pick(r, 0.1, 30), "g": arr_or_scalar(r, -0.1, 0.1, bshape)})
        elif k == "R":
            prog_.append({"op": "R", "rT_re": pick(r, 0, 1), "rT_im": pick(r, -2, 2), "rL": pick(r, 0, 1),
                          "r0": None if r.random() < 0.5 else pick(r, 0, 1)})
        elif k == "S":
            sub = mode
            if mode == "mixed":
                sub = ["1d", "nd", "float", "grad"][r.integers(4)]
                if have_float and sub == "1d":
                    sub = "1d"  # int shift on float coords is legal (converted)
            nmax = int(r.integers(1, 5)) if (r.random() < 0.15 and not lossless) else None
            if sub == "1d":
                kk = int(r.integers(1, 4)) * (1 if r.random() < 0.6 else -1)
                prog_.append({"op": "S", "k": kk, "nmax": nmax})
                last_shift = [kk]
            elif sub == "nd":
                vec = r.integers(-2, 3, size=kdim)
                if not vec.any():
                    vec[0] = 1
                if bshape and r.random() < 0.5:
                    vecs = r.integers(-2, 3, size=tuple(bshape) + (kdim,))
                    vecs[..., 0] = np.where(np.all(vecs == 0, axis=-1), 1, vecs[..., 0])
                    prog_.append({"op": "Snd", "k": vecs.tolist(), "nmax": nmax})
                    last_shift = None
                else:
                    prog_.append({"op": "Snd", "k": vec.tolist(), "nmax": nmax})
                    last_shift = vec.tolist()
            elif sub == "float":
                g = opts.get("kgrid", 0.5)
                opts.setdefault("kgrid", g)
                vec = (r.integers(-4, 5, size=kdim) * g * float(r.integers(1, 4))).astype(float)
                if not vec.any():
                    vec[0] = 2 * g
                prog_.append({"op": "Sf", "k": vec.tolist()})
                have_float = True
                last_shift = vec.tolist()
            else:  # gradient / time accumulation
                opts.setdefault("kgrid", 0.5)
                if lossless:
                    # non-merging side condition: durations on a 0.01 lattice and a grid far below every gap
                    opts["kgrid"] = 1e-3
                    tau_ = float(np.round(pick(r, 0.5, 5), 2))
                else:
                    tau_ = pick(r, 0.5, 5)
                if r.random() < 0.7:
                    gr = (r.integers(-3, 4, size=kdim)).astype(float)
                    if not gr.any():
                        gr[0] = 1.0
                    prog_.append({"op": "G", "tau": tau_, "gradient": gr.tolist()})
                else:
                    prog_.append({"op": "C", "tau": tau_})
                have_float = True
                last_shift = None
        elif k == "D":
            if last_shift is not None and r.random() < 0.7 and prog_ and prog_[-1]["op"] in ("S", "Snd", "Sf"):
                kk = last_shift if len(last_shift) > 1 else last_shift[0]
                dim = len(last_shift)
            else:
                kk, dim = None, None
            if r.random() < 0.6 or dim is None:
                Dv = pick(r, 0, 3)
            else:
                A = r.normal(size=(dim, dim))
                Dv = (A @ A.T * 0.5).tolist()
            prog_.append({"op": "D", "tau": pick(r, 0.5, 20), "D": Dv, "k": kk})
        elif k == "PD":
            prog_.append({"op": "PD", "pd": arr_or_scalar(r, 0.2, 2, bshape), "reset": bool(r.random() < 0.5)})
        elif k == "WAIT":
            prog_.append({"op": "WAIT", "duration": pick(r, 0, 5)})
        else:
            prog_.append({"op": k})
    if lossless and mode in ("1d", "nd") and r.random() < 0.5:
        # a cap that is never exceeded: truncation must then be the identity
        tot = 0
        for o in prog_:
            if o["op"] == "S":
                tot += abs(o["k"])
            elif o["op"] == "Snd":
                tot += int(np.max(np.abs(np.asarray(o["k"]))))
        opts["max_nstate"] = max(1, tot)
    return {"program": prog_, "options": opts, "mode": mode, "batch": list(batch) if batch else None}


def gen_exchange(r, length, ncomp=None):
    """programs on an ncomp-compartment system (compartments on axis 0) with exchange operators"""
    ncomp = ncomp or int(r.integers(2, 4))
    dens = r.uniform(0.2, 1.0, size=ncomp)
    dens = (dens / dens.sum()).tolist()
    prog_ = []
    kinds = ["T", "X", "S", "E", "X", "T", "S", "SPOILER"]
    for _ in range(length):
        k = kinds[r.integers(len(kinds))]
        if k == "T":
            prog_.append({"op": "T", "alpha": pick(r, -180, 180, (90, 180)), "phi": pick(r, -180, 180, (0, 90))})
        elif k == "E":
            prog_.append({"op": "E", "tau": pick(r, 0.1, 20), "T1": r.uniform(100, 2000, size=ncomp).tolist(),
                          "T2": r.uniform(10, 150, size=ncomp).tolist(), "g": pick(r, -0.1, 0.1, (0.0,))})
        elif k == "S":
            prog_.append({"op": "S", "k": int(r.integers(1, 3)) * (1 if r.random() < 0.7 else -1), "nmax": None})
        elif k == "X":
            # detailed balance: K[i,j] d[j] = K[j,i] d[i], columns sum to zero
            sym = r.uniform(0, 0.2, size=(ncomp, ncomp))
            sym = 0.5 * (sym + sym.T)
            K = sym / np.asarray(dens)[None, :]
            np.fill_diagonal(K, 0)
            K = -K
            np.fill_diagonal(K, -K.sum(axis=0))
            o = {"op": "X", "tau": pick(r, 0.1, 20, (0.0,), 0.05), "khi": K.tolist()}
            if r.random() < 0.7:
                o["T1"] = r.uniform(100, 2000, size=ncomp).tolist()
            if r.random() < 0.7:
                o["T2"] = r.uniform(10, 150, size=ncomp).tolist()
            if r.random() < 0.6:
                o["g"] = r.uniform(-0.05, 0.05, size=ncomp).tolist()
            prog_.append(o)
        else:
            prog_.append({"op": k})
    return {"program": prog_, "options": {}, "mode": "exchange", "batch": [ncomp], "density": dens}


def build_op(o, epg):
    k = o["op"]
    A = np.asarray
    if k == "T":
        return epg.T(o["alpha"], o["phi"])
    if k == "Phi":
        return epg.Phi(o["phi"])
    if k == "E":
        return epg.E(o["tau"], o["T1"], o["T2"], o["g"])
    if k == "P":
        return epg.P(o["tau"], o["g"])
    if k == "R":
        return epg.R(complex(o["rT_re"], o["rT_im"]), o["rL"], r0=o.get("r0"))
    if k == "S":
        return epg.S(int(o["k"]), nmax=o.get("nmax"))
    if k == "Snd":
        return epg.S(A(o["k"], dtype=int), nmax=o.get("nmax"))
    if k == "Sf":
        return epg.S(A(o["k"], dtype=float))
    if k == "G":
        return epg.G(o["tau"], o["gradient"])
    if k == "C":
        return epg.C(o["tau"])
    if k == "D":
        return epg.D(o["tau"], o["D"], o.get("k"))
    if k == "X":
        kw = {n: o[n] for n in ("T1", "T2", "g") if o.get(n) is not None}
        return epg.X(o["tau"], A(o["khi"]), **kw)
    if k == "SPOILER":
        return epg.SPOILER
    if k == "RESET":
        return epg.RESET
    if k == "PD":
        return epg.PD(o["pd"], reset=bool(o["reset"]))
    if k == "WAIT":
        return epg.Wait(o.get("duration", 1.0))
    raise ValueError(k)


def wf_violations(sm, tol=1e-9):
    """C08's well-formedness clauses evaluated on a live epgpy StateMatrix"""
    out = []
    st = np.asarray(sm.states)
    n = sm.nstate
    if st.shape[-2] != 2 * n + 1 or st.shape[-1] != 3:
        out.append(f"states shape {st.shape} vs nstate {n}")
        return out
    if tuple(st.shape[:-2]) != tuple(sm.shape):
        out.append(f"states batch shape {st.shape[:-2]} != sm.shape {sm.shape}")
    sc = max(1.0, float(np.max(np.abs(st)))) if st.size else 1.0
    if not np.allclose(st[..., 1], st[..., ::-1, 0].conj(), atol=tol * sc, rtol=0):
        out.append("F-(k) != conj(F+(-k))")
    if not np.allclose(st[..., 2], st[..., ::-1, 2].conj(), atol=tol * sc, rtol=0):
        out.append("Z(-k) != conj(Z(k))")
    try:
        eq = np.asarray(sm.equilibrium)
    except Exception as exc:
        out.append(f"equilibrium not retrievable: {exc!r}")
        eq = None
    if eq is not None:
        if eq.shape != st.shape:
            out.append(f"equilibrium shape {eq.shape} != states shape {st.shape}")
        else:
            e = eq.copy()
            e[..., n, 2] = 0
            if np.max(np.abs(e)) > tol:
                out.append("equilibrium non-zero outside Z of the zero state")
            if np.max(np.abs(eq[..., n, 2].imag)) > tol:
                out.append("equilibrium density not real")
    co = sm.coords
    if co is not None:
        co = np.asarray(co)
        if co.shape[-2] != 2 * n + 1:
            out.append(f"coords state count {co.shape[-2]} != {2 * n + 1}")
        else:
            if not np.allclose(co, -co[..., ::-1, :], atol=1e-9):
                out.append("coords not antisymmetric about the centre")
            if np.max(np.abs(co[..., n, :])) > 1e-9:
                out.append("centre coordinate not 0")
    return out
