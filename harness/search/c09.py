"""C09 / C10 / C20 on the real code, object level above the operators: a Sequence object, a nested program list and the
function returned by Sequence.signal() behave the same on every call — results depend only on the arguments of that call,
never on earlier calls (no remembered options, no memoised flattening, no remembered variable values)."""
import copy
import warnings

import numpy as np


def _eq(a, b):
    if isinstance(a, (tuple, list)) and isinstance(b, (tuple, list)):
        return len(a) == len(b) and all(_eq(x, y) for x, y in zip(a, b))
    if isinstance(a, (tuple, list)) != isinstance(b, (tuple, list)):
        return False
    a, b = np.asarray(a), np.asarray(b)
    return a.shape == b.shape and np.allclose(a, b, rtol=1e-12, atol=1e-14)


def _mk_sequence(epg, necho, opts):
    from epgpy import sequence as sq
    a, T2, b1 = sq.Variable("alpha"), sq.Variable("T2"), sq.Variable("b1")
    ops = [sq.T(90 * b1, 90)]
    for _ in range(necho):
        ops += [sq.E(4.0, 900.0, T2), sq.S(1), sq.T(a * b1, 0), sq.S(1), sq.E(4.0, 900.0, T2), sq.ADC]
    return sq.Sequence(ops, options=opts) if opts is not None else sq.Sequence(ops)


CALL_OPTS = [{}, {"max_nstate": 1}, {"max_nstate": 2}, {"max_nstate": 1}, {}]


def sequence_object_history(r, epg, ncase):
    """random histories of simulate / signal / jacobian / hessian / crlb on ONE Sequence object (and on a copy of it) with
    per-call options: every result equals the same call on a freshly built Sequence; the constructor's options dictionary
    and `seq.options` are left as they were"""
    dis, checked = [], 0
    for _ in range(ncase):
        necho = int(r.integers(3, 7))
        opts0 = [None, {}, {"max_nstate": 3}][r.integers(3)]
        given = copy.deepcopy(opts0)
        hist = []
        for _ in range(int(r.integers(3, 8))):
            call = ["simulate", "simulate_t", "signal", "jacobian", "hessian", "crlb"][r.integers(6)]
            po = dict(CALL_OPTS[r.integers(len(CALL_OPTS))])
            vals = {"alpha": float(r.uniform(100, 170)), "T2": float(r.uniform(30, 90)), "b1": float(r.uniform(0.8, 1.1))}
            hist.append((call, po, vals, bool(r.random() < 0.3)))

        def do(seq, call, po, vals):
            if call == "simulate":
                return seq.simulate(vals, **po)
            if call == "simulate_t":
                return seq.simulate(vals, adc_time=True, **po)
            if call == "signal":
                return seq.signal(options=po)(**vals)
            if call == "jacobian":
                return seq.jacobian(["T2", "alpha"], options=po)(**vals)
            if call == "hessian":
                return seq.hessian(["T2", "b1"], options=po)(**vals)
            return seq.crlb(["T2", "b1"], options=po)(**vals)

        problems = []
        try:
            with warnings.catch_warnings():
                warnings.simplefilter("ignore")
                seq = _mk_sequence(epg, necho, given)
                seq_options_before = copy.deepcopy(seq.options)
                other = seq.copy()
                for i, (call, po, vals, on_copy) in enumerate(hist):
                    po_before = copy.deepcopy(po)
                    got = do(other if on_copy else seq, call, po, vals)
                    ref = do(_mk_sequence(epg, necho, copy.deepcopy(opts0)), call, copy.deepcopy(po_before), vals)
                    if not _eq(got, ref):
                        problems.append((f"call {i} ({call}, options {po_before}{', on the copy' if on_copy else ''}) differs from the same "
                                         "call on a fresh Sequence", np.ravel(np.asarray(got[0] if isinstance(got, (tuple, list)) else got))[:4].tolist(),
                                         np.ravel(np.asarray(ref[0] if isinstance(ref, (tuple, list)) else ref))[:4].tolist()))
                        break
                    if po != po_before:
                        problems.append((f"call {i} changed the caller's options dictionary", po_before, po))
                        break
                    if given != opts0:
                        problems.append((f"call {i} changed the dictionary given to Sequence(options=...)", opts0, given))
                        break
                    if seq.options != seq_options_before:
                        problems.append((f"call {i} changed seq.options", seq_options_before, dict(seq.options)))
                        break
        except Exception as exc:
            problems.append(("raised", repr(exc)[:300]))
        checked += 1
        if problems:
            dis.append({"kind": "c09-sequence-object", "problems": problems,
                        "input": {"necho": necho, "options": opts0, "history": [(c, p, v, oc) for c, p, v, oc in hist]}})
    return checked, dis


def _flat(program):
    out = []
    for it in program:
        if isinstance(it, list):
            out += _flat(it)
        else:
            out.append(it)
    return out


def nested_program_history(r, epg, ncase):
    """a nested program list is used, edited in place (an item replaced / appended inside a sub-list, a `*` group extended)
    and used again: simulate, get_adc_times, getnshift and getshape equal those of the flat sequence written out by hand"""
    dis, checked = [], 0
    for _ in range(ncase):
        def rf():
            return epg.T(float(r.uniform(20, 160)), float(r.uniform(-90, 90)))

        def ev():
            return epg.E(float(r.uniform(2, 9)), 800.0, float(r.uniform(30, 90)), duration=True)

        block = [rf(), ev(), epg.S(1), epg.ADC]
        inner = [ev(), block, rf()] if r.random() < 0.5 else block
        program = [rf(), inner, [epg.S(1), ev()], epg.ADC]
        edits = []
        problems = []
        try:
            with warnings.catch_warnings():
                warnings.simplefilter("ignore")
                for step in range(int(r.integers(2, 5))):
                    flat = _flat(program)
                    got = (np.asarray(epg.simulate(program)), np.asarray(epg.functions.get_adc_times(program)),
                           epg.getnshift(program), tuple(epg.getshape(program)))
                    ref = (np.asarray(epg.simulate(list(flat))), np.asarray(epg.functions.get_adc_times(list(flat))),
                           epg.getnshift(list(flat)), tuple(epg.getshape(list(flat))))
                    for name, g, w in zip(["simulate", "get_adc_times", "getnshift", "getshape"], got, ref):
                        if not _eq(g, w):
                            problems.append((f"after edits {edits}: {name} of the nested program differs from the flat one",
                                             np.ravel(np.asarray(g))[:4].tolist(), np.ravel(np.asarray(w))[:4].tolist()))
                            break
                    if problems:
                        break
                    e = ["replace", "append", "batch"][r.integers(3)]
                    if e == "replace":
                        block[1] = ev()
                    elif e == "append":
                        block.append(epg.S(1))
                        block.append(ev())
                    else:
                        block[0] = epg.T(r.uniform(20, 160, size=2), 0.0)
                    edits.append(e)
        except Exception as exc:
            problems.append(("raised", repr(exc)[:300]))
        checked += 1
        if problems:
            dis.append({"kind": "c10-nested-history", "problems": problems, "input": {"edits": edits}})
    return checked, dis


def signal_function_reuse(r, epg, ncase):
    """the function returned by Sequence.signal() / jacobian(...) is called several times: a call whose own arguments do not
    give every variable raises, whatever was given before; a complete call returns what a fresh Sequence returns"""
    dis, checked = [], 0
    names = ["alpha", "T2", "b1"]
    for _ in range(ncase):
        necho = int(r.integers(2, 5))
        which = ["signal", "jacobian"][r.integers(2)]
        hist = []
        for _ in range(int(r.integers(2, 6))):
            vals = {"alpha": float(r.uniform(100, 170)), "T2": float(r.uniform(30, 90)), "b1": float(r.uniform(0.8, 1.1))}
            if r.random() < 0.5:
                drop = names[r.integers(3)]
                vals.pop(drop)
            hist.append((vals, bool(r.random() < 0.3)))
        problems = []
        try:
            with warnings.catch_warnings():
                warnings.simplefilter("ignore")
                seq = _mk_sequence(epg, necho, None)
                f = seq.signal() if which == "signal" else seq.jacobian(["T2"])
                for i, (vals, as_dict) in enumerate(hist):
                    complete = set(vals) == set(names)
                    try:
                        got = f(dict(vals)) if as_dict else f(**vals)
                        raised = None
                    except Exception as exc:
                        got, raised = None, exc
                    if not complete:
                        if raised is None:
                            problems.append((f"call {i} lacks {sorted(set(names) - set(vals))} but returned a result",
                                             np.ravel(np.asarray(got[0] if isinstance(got, tuple) else got))[:3].tolist()))
                            break
                        continue
                    if raised is not None:
                        problems.append((f"complete call {i} raised", repr(raised)[:200]))
                        break
                    fresh = _mk_sequence(epg, necho, None)
                    ref = fresh.signal(**vals) if which == "signal" else fresh.jacobian(["T2"], **vals)
                    if not _eq(got, ref):
                        problems.append((f"call {i} differs from a fresh Sequence", None))
                        break
        except Exception as exc:
            problems.append(("raised", repr(exc)[:300]))
        checked += 1
        if problems:
            dis.append({"kind": "c20-signal-reuse", "problems": problems, "input": {"necho": necho, "which": which, "history": hist}})
    return checked, dis
