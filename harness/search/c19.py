"""C19 on the real code through `@`: a Jacobian column is the same whether its variable is differentiated alone or together
with others, also when the differentiated operator has been merged with `@` into an operator that declares nothing (or
something else)."""
import itertools
import warnings

import numpy as np


def combine_subset_independence(r, epg, ncase):
    dis, checked = [], 0
    for _ in range(ncase):
        kinds = [["E", "E"], ["E", "P"], ["P", "E"], ["E", "E", "E"], ["T", "E"], ["E", "T"]][r.integers(6)]
        pars = []
        for k in kinds:
            if k == "E":
                pars.append(dict(tau=float(r.uniform(2, 12)), T1=float(r.uniform(300, 1500)), T2=float(r.uniform(20, 120)), g=float(r.uniform(-0.05, 0.05))))
            elif k == "P":
                pars.append(dict(tau=float(r.uniform(2, 12)), g=float(r.uniform(-0.05, 0.05))))
            else:
                pars.append(dict(alpha=float(r.uniform(20, 160)), phi=float(r.uniform(-90, 90))))
        names = {"E": ["T2", "T1", "g", "tau"], "P": ["g", "tau"], "T": ["alpha", "phi"]}
        # variable under test: a parameter of ONE operand, renamed so that it is private to that operand
        pos = int(r.integers(len(kinds)))
        par = names[kinds[pos]][r.integers(len(names[kinds[pos]]))]
        var = par   # identity-named declarations (alias / coefficient-map declarations through `@` are known finding F7)

        def decl(i, others):
            """declaration of operand i: the variable under test (only on operand `pos`) plus other names of its own parameters"""
            d = [par] if i == pos else []
            d += [p for p in others if p != par]
            return d or None

        def build(selection, assoc):
            ops = []
            for i, (k, p) in enumerate(zip(kinds, pars)):
                kw = {}
                d = decl(i, selection[i])
                if d:
                    kw["order1"] = d
                ops.append({"E": epg.E, "P": epg.P, "T": epg.T}[k](*p.values(), **kw))
            if assoc == "seq":
                return ops
            if assoc == "left" or len(ops) == 2:
                op = ops[0]
                for o in ops[1:]:
                    op = op @ o
            else:
                op = ops[0] @ (ops[1] @ ops[2])
            return [op]

        def column(selection, assoc):
            pre = [epg.T(35.0, 20.0), epg.E(3.0, 900.0, 70.0, 0.01), epg.S(1)]
            seq = pre + build(selection, assoc) + [epg.S(-1), epg.ADC, epg.Adc("Z0")]
            res = epg.simulate(seq, probe=[epg.Jacobian([var])])
            return np.asarray(res).reshape(-1)

        none = [[] for _ in kinds]
        problems = []
        try:
            with warnings.catch_warnings():
                warnings.simplefilter("ignore")
                ref = column(none, "seq")
                for assoc in ["left", "right"]:
                    alone = column(none, assoc)
                    if not np.allclose(alone, ref, rtol=1e-9, atol=1e-13):
                        problems.append((f"column of {par} of operand {pos}, differentiated alone, `@` ({assoc}) vs sequential", alone.tolist(), ref.tolist()))
                        break
                    for trial in range(3):
                        sel = [[p for p in names[k] if r.random() < 0.5] for k in kinds]
                        tog = column(sel, assoc)
                        if not np.allclose(tog, alone, rtol=1e-9, atol=1e-13):
                            problems.append((f"column of {par} of operand {pos} changes when {sel} are differentiated too (`@` {assoc})",
                                             tog.tolist(), alone.tolist()))
                            break
                    if problems:
                        break
        except TypeError as exc:
            if "unsupported operand type(s) for @" in str(exc):
                continue          # `@` does not accept this pair: outside the property
            problems.append(("raised", repr(exc)[:300]))
        except Exception as exc:
            problems.append(("raised", repr(exc)[:300]))
        checked += 1
        if problems:
            dis.append({"kind": "c19-combine", "problems": problems, "input": {"kinds": kinds, "pars": pars, "pos": pos, "par": par}})
    return checked, dis


def sequence_coefficient_sum(r, epg, ncase):
    """one Sequence variable feeding several parameters of one virtual operator: its Jacobian column is the sum over those
    parameters of (d parameter / d variable) times the column obtained for that parameter differentiated alone on the
    concrete operators"""
    from epgpy import sequence as sq

    dis, checked = [], 0
    for _ in range(ncase):
        ratio = float(r.uniform(5, 20))
        x0 = float(r.uniform(30, 90))
        tau = float(r.uniform(3, 10))
        alpha = float(r.uniform(40, 150))
        necho = int(r.integers(2, 5))
        kind = ["E", "T"][r.integers(2)]
        problems = []
        try:
            with warnings.catch_warnings():
                warnings.simplefilter("ignore")
                x = sq.Variable("x")
                if kind == "E":     # T1 = ratio * x, T2 = x
                    vop = sq.E(tau, ratio * x, x)
                    conc = lambda o1: epg.E(tau, ratio * x0, x0, **({"order1": o1} if o1 else {}))
                    coeffs = {"T1": ratio, "T2": 1.0}
                    pre_v, pre_c = sq.T(alpha, 90), epg.T(alpha, 90.0)
                    rf_v, rf_c = (lambda: sq.T(alpha, 0)), (lambda o1=None: epg.T(alpha, 0.0))
                else:               # alpha = x, phi = x / 2 + 10
                    vop = sq.T(x, x / 2 + 10)
                    conc = lambda o1: epg.T(x0, x0 / 2 + 10, **({"order1": o1} if o1 else {}))
                    coeffs = {"alpha": 1.0, "phi": 0.5}
                    pre_v, pre_c = sq.T(alpha, 90), epg.T(alpha, 90.0)
                    rf_v, rf_c = (lambda: sq.E(tau, 800.0, 60.0)), (lambda o1=None: epg.E(tau, 800.0, 60.0))
                ops = [pre_v]
                for _ in range(necho):
                    ops += [vop, sq.S(1), rf_v(), vop, sq.S(1), sq.ADC]
                seq = sq.Sequence(ops)
                _, jac = seq.jacobian(["x"], x=x0)
                col = np.asarray(jac).reshape(-1)
                expected = 0
                for p, c in coeffs.items():
                    cops = [pre_c]
                    for _ in range(necho):
                        cops += [conc([p]), epg.S(1), rf_c(), conc([p]), epg.S(1), epg.ADC]
                    jp = np.asarray(epg.simulate(cops, probe=[epg.Jacobian([p])])).reshape(-1)
                    expected = expected + c * jp
                if col.shape != np.shape(expected) or not np.allclose(col, expected, rtol=1e-9, atol=1e-13):
                    problems.append((f"column of x feeding {list(coeffs)} of {kind} (Sequence, sum of c_p x column of p alone)",
                                     col.tolist(), np.asarray(expected).tolist()))
        except Exception as exc:
            problems.append(("raised", repr(exc)[:300]))
        checked += 1
        if problems:
            dis.append({"kind": "c19-sequence-coeff", "problems": problems,
                        "input": {"kind": kind, "ratio": ratio, "x": x0, "tau": tau, "alpha": alpha, "necho": necho}})
    return checked, dis
