"""C17 on the real code: stats.crlb / crlb_split / confint and Sequence.crlb / confint against the defining
formulas written independently (per batch element, plain loops) and finite differences for the gradient."""
import warnings

import numpy as np

import lib


def t_quantile(level, dof):
    """two-sided Student-t quantile by numerical integration + bisection (no table, no scipy)"""
    from math import gamma, sqrt, pi

    c = gamma((dof + 1) / 2) / (sqrt(dof * pi) * gamma(dof / 2))

    def cdf_sym(t):  # P(|T| <= t)
        xs = np.linspace(0, t, 20001)
        ys = c * (1 + xs * xs / dof) ** (-(dof + 1) / 2)
        return 2 * float(np.sum((ys[1:] + ys[:-1]) * np.diff(xs)) / 2)

    lo, hi = 0.0, 200.0
    for _ in range(80):
        mid = 0.5 * (lo + hi)
        if cdf_sym(mid) < level:
            lo = mid
        else:
            hi = mid
    return 0.5 * (lo + hi)


def ref_crlb(J, W, sigma2):
    I = (J.conj().T @ J).real / sigma2
    C = np.linalg.inv(I)
    w = np.ones(J.shape[1]) if W is None else np.asarray(W)
    return float(np.sum(w * np.diag(C))), np.diag(C) * w


def gen_JH(r, batch, npoint, nparam, ngrad):
    """smooth complex J(x) along ngrad directions: J(x) = J0 + sum_x H[..., x] * dx + quadratic"""
    J0 = r.normal(size=batch + (npoint, nparam)) + 1j * r.normal(size=batch + (npoint, nparam))
    H = r.normal(size=batch + (npoint, nparam, ngrad)) + 1j * r.normal(size=batch + (npoint, nparam, ngrad))
    Q = 0.3 * (r.normal(size=batch + (npoint, nparam, ngrad)) + 1j * r.normal(size=batch + (npoint, nparam, ngrad)))

    def J(dx):
        return J0 + np.tensordot(H, dx, axes=([-1], [0])) + np.tensordot(Q, dx * dx, axes=([-1], [0]))

    return J0, H, J


def search_crlb(r, ncase):
    from epgpy import stats

    dis, checked = [], 0
    for _ in range(ncase):
        batch = [(), (3,), (2, 2), (1, 2)][r.integers(4)]
        nparam = int(r.integers(1, 5))
        npoint = nparam + int(r.integers(1, 6))
        ngrad = int(r.integers(1, 4))
        sigma2 = float([1.0, 0.04, 2.5][r.integers(3)])
        W = None if r.random() < 0.5 else r.uniform(0.5, 2.0, size=nparam)
        log = bool(r.random() < 0.4)
        J0, H, Jf = gen_JH(r, batch, npoint, nparam, ngrad)
        inp = {"batch": list(batch), "npoint": npoint, "nparam": nparam, "ngrad": ngrad, "sigma2": sigma2, "W": None if W is None else W.tolist(), "log": log}
        try:
            with warnings.catch_warnings():
                warnings.simplefilter("ignore")
                cost = stats.crlb(J0, W=W, sigma2=sigma2, log=log)
                cost2, grad = stats.crlb(J0, H=H, W=W, sigma2=sigma2, log=log)
                split = stats.crlb_split(J0, W=W, sigma2=sigma2, log=log)
        except Exception as exc:
            dis.append({"kind": "c17-crlb", "problems": [("raised", repr(exc)[:200])], "input": inp})
            continue
        checked += 1
        problems = []
        cost = np.asarray(cost)
        for idx in np.ndindex(*batch):
            ref, dref = ref_crlb(J0[idx], W, sigma2)
            refv = np.log10(ref) if log else ref
            if abs(cost[idx] - refv) > 1e-8 * max(1, abs(refv)) or abs(np.asarray(cost2)[idx] - refv) > 1e-8 * max(1, abs(refv)):
                problems.append(("cost vs trace(W inv(Re(J^H J)/sigma2))", idx, float(cost[idx]), float(refv)))
                break
            sp = np.moveaxis(np.asarray(split), 0, -1)[idx]
            dr = np.log10(dref) if log else dref
            if not np.allclose(sp, dr, rtol=1e-8):
                problems.append(("crlb_split vs diagonal", idx))
                break
            # gradient vs central finite differences of the defining formula
            g = np.asarray(grad)[idx]
            for x in range(ngrad):
                h = 1e-5
                e = np.zeros(ngrad); e[x] = h
                cp, _ = ref_crlb(Jf(e)[idx], W, sigma2)
                cm, _ = ref_crlb(Jf(-e)[idx], W, sigma2)
                fd = ((np.log10(cp) - np.log10(cm)) if log else (cp - cm)) / (2 * h)
                if abs(g[x] - fd) > 1e-5 * max(1.0, abs(fd)):
                    problems.append((f"gradient[{x}] vs finite difference of the cost", idx, float(g[x]), float(fd)))
                    break
            if problems:
                break
        if problems:
            dis.append({"kind": "c17-crlb", "problems": problems, "input": inp})
    return checked, dis


def search_confint(r, ncase):
    from epgpy import stats

    dis, checked = [], 0
    for _ in range(ncase):
        batch = [(), (1,), (3,), (2, 2)][r.integers(4)]
        nparam = int(r.integers(1, 4))
        nobs = nparam + int(r.integers(1, 8))
        level = [0.95, 0.99][r.integers(2)] if nobs - nparam <= 9 else 0.95
        jac = r.normal(size=batch + (nobs, nparam)) + 1j * r.normal(size=batch + (nobs, nparam))
        pred = r.normal(size=batch + (nobs,)) + 1j * r.normal(size=batch + (nobs,))
        obs = pred + 0.1 * (r.normal(size=batch + (nobs,)) + 1j * r.normal(size=batch + (nobs,)))
        use_h = r.random() < 0.5
        hess = 0.05 * (r.normal(size=batch + (nobs, nparam, nparam)) + 1j * r.normal(size=batch + (nobs, nparam, nparam)))
        hess = 0.5 * (hess + np.swapaxes(hess, -1, -2))
        inp = {"batch": list(batch), "nobs": nobs, "nparam": nparam, "level": level, "hessian": bool(use_h)}
        try:
            with warnings.catch_warnings():
                warnings.simplefilter("ignore")
                cints, cband = stats.confint(obs, pred, jac, hess if use_h else None, conflevel=level)
        except Exception as exc:
            dis.append({"kind": "c17-confint", "problems": [("raised", repr(exc)[:200])], "input": inp})
            continue
        checked += 1
        dof = nobs - nparam
        tq = t_quantile(level, dof)
        for idx in np.ndindex(*batch):
            res = (obs - pred)[idx]
            sse = float(np.sum(np.abs(res) ** 2))
            M = (jac[idx].conj().T @ jac[idx]).real
            if use_h:
                M = M - np.einsum("nqp,n->pq", hess[idx].conj(), res).real
            cov = np.linalg.inv(M) * sse / dof
            ref = tq * np.sqrt(np.diag(cov))
            got = np.asarray(cints)[idx]
            if not np.allclose(got, ref, rtol=2e-4):
                dis.append({"kind": "c17-confint", "problems": [("half-widths vs t*sqrt(diag(SSE/dof*inv(Re(J^H J) - Re sum conj(H_n) r_n)))",
                                                                 got.tolist(), ref.tolist())], "input": inp})
                break
    return checked, dis


def search_sequence(r, ncase):
    """Sequence.crlb / confint equal the stats functions applied to the sequence's own Jacobian/Hessian"""
    from epgpy import sequence as sq, stats

    dis, checked = [], 0
    for _ in range(ncase):
        necho = int(r.integers(3, 8))
        T2 = sq.Variable("T2"); b1 = sq.Variable("b1")
        ops = [sq.T(90, 90)]
        for _ in range(necho):
            ops += [sq.E(4.0, 1000.0, T2), sq.S(1), sq.T(150 * b1, 0), sq.S(1), sq.E(4.0, 1000.0, T2), sq.ADC]
        seq = sq.Sequence(ops)
        vals = {"T2": float(r.uniform(30, 120)), "b1": float(r.uniform(0.7, 1.1))}
        if r.random() < 0.4:
            vals["T2"] = r.uniform(30, 120, size=3)
        sigma2 = float([1.0, 0.25][r.integers(2)])
        opts = [{}, {}, {"max_nstate": 2}, {"max_nstate": 1}, {"init": [0, 0, 0.5]}][r.integers(5)]   # simulate options of the call
        grad = [["T2", "b1"], ["b1"], ["T2"], True][r.integers(4)]
        gvars = ["T2", "b1"] if grad is True else grad
        try:
            with warnings.catch_warnings():
                warnings.simplefilter("ignore")
                c = seq.crlb(["T2", "b1"], sigma2=sigma2, options=opts)(**vals)
                c2, g2 = seq.crlb(["T2", "b1"], gradient=grad, sigma2=sigma2, options=opts)(**vals)
                _, jac, hes = seq.hessian(["T2", "b1"], gvars, options=opts)(**vals)
                ref = stats.crlb(jac, sigma2=sigma2)
                ref2, gref = stats.crlb(jac, H=hes, sigma2=sigma2)
                sig = seq.signal(**vals)
                obs = sig * (1 + 0.01 * r.normal(size=np.shape(sig)))
                ci = seq.confint(obs, ["T2", "b1"])(**vals)
                _, jac1 = seq.jacobian(["T2", "b1"])(**vals)
                ciref, _ = stats.confint(obs, sig, jac1)
        except Exception as exc:
            dis.append({"kind": "c17-sequence", "problems": [("raised", repr(exc)[:200])], "input": {k: np.asarray(v).tolist() for k, v in vals.items()}})
            continue
        checked += 1
        if not (np.allclose(c, ref) and np.allclose(c2, ref2) and np.allclose(g2, gref) and np.allclose(ci, ciref)):
            dis.append({"kind": "c17-sequence", "problems": [("Sequence.crlb/confint differ from stats functions on the sequence's Jacobian/Hessian",
                                                              np.ravel(c)[:2].tolist(), np.ravel(ref)[:2].tolist(), np.ravel(c2)[:2].tolist(),
                                                              np.ravel(ref2)[:2].tolist(), np.ravel(g2)[:3].tolist(), np.ravel(gref)[:3].tolist())],
                        "input": {**{k: np.asarray(v).tolist() for k, v in vals.items()}, "options": opts, "gradient": grad}})
    return checked, dis
