"""C20 on the real code: every member of each documented invalid class raises (at construction or application);
adjacent boundary-valid inputs are accepted.  Each generator returns a descriptor (class, args, expected) so
that the same descriptor is also sent to the Lean guard model (corr/guardc.py)."""
import warnings

import numpy as np


def _rshape(r, maxnd=3):
    return tuple(int(x) for x in r.integers(1, 4, size=int(r.integers(0, maxnd + 1))))


def _neg_entry(r, shape, lo=0.0, hi=5.0):
    """array of non-negative entries with exactly one negative entry at a random position (any magnitude)"""
    a = r.uniform(lo, hi, size=shape)
    idx = tuple(int(r.integers(s)) for s in shape)
    a[idx] = -float(10.0 ** r.uniform(-9, 3))
    return a


def gen(r, cls):
    """descriptor {cls, args..., expect: 'raise'|'ok'}; `reuse`: the operator object has already been applied
    to a valid state matrix before (application-time guards must not depend on the history of the object)"""
    valid = r.random() < 0.35
    d = {"cls": cls, "expect": "ok" if valid else "raise", "reuse": bool(r.random() < 0.5)}
    if cls == "duration":
        kind = ["T", "E", "S", "Wait", "Phi", "P", "R", "Adc?"][r.integers(7)]
        shape = _rshape(r)
        if valid:
            v = r.uniform(0, 5, size=shape)
            if r.random() < 0.5:
                v = v * 0  # boundary: zero duration
        else:
            v = _neg_entry(r, shape)
        d.update(kind=kind, value=v.tolist() if shape else float(v), via_copy=bool(r.random() < 0.3))
    elif cls == "time":  # G / C (a time that becomes a shift), E / P / X / D (a time that becomes a decay)
        kind = ["G", "C", "E", "P", "X", "D", "E_T1", "E_T2", "X_T2"][r.integers(9)]  # *_T1/_T2: a relaxation time
        shape = _rshape(r, 2)
        v = r.uniform(0.1, 5, size=shape) if valid else _neg_entry(r, shape)
        if valid and shape and r.random() < 0.4 and "_T" not in kind:
            v[tuple(int(r.integers(s)) for s in shape)] = 0.0  # a zero entry is fine as long as the shift is not zero overall
            if not np.any(v):
                v = v + 1.0
        d.update(kind=kind, value=v.tolist() if shape else float(v))
    elif cls == "zero_shift":
        shape = [(), (1,), (3,), (2, 3), (2, 2)][r.integers(5)]
        isint = bool(r.random() < 0.5)
        if valid:
            k = r.integers(1, 4, size=shape) if isint else r.uniform(0.5, 3, size=shape)
        else:
            k = np.zeros(shape, dtype=int if isint else float)
            if r.random() < 0.3 and not isint:
                k = k + 1e-12  # numerically zero
        d.update(k=k.tolist() if shape else (int(k) if isint else float(k)), isint=isint)
    elif cls == "shift_ncomp":
        n = int(r.integers(1, 5)) if valid else int(r.integers(5, 9))
        lead = [(), (2,), (2, 3)][r.integers(3)]
        k = r.integers(1, 4, size=lead + (n,))
        d.update(k=k.tolist())
    elif cls == "float_no_grid":
        dim = int(r.integers(1, 4))
        k = np.round(r.uniform(0.3, 3, size=dim), 3)
        where = ["none", "op", "sm", "simulate"][r.integers(4)] if valid else "none"
        # the grid in force: the state matrix's (options of StateMatrix / simulate) if any, else the operator's;
        # invalid members: no grid anywhere, or a grid of size 0 in force (possibly hiding a valid operator grid)
        smg = 0.1 if where in ("sm", "simulate") else None
        opg = 0.1 if where == "op" else None
        if not valid and r.random() < 0.6:
            which = ["sm0", "op0", "sm0_op"][r.integers(3)]
            smg, opg = {"sm0": (0.0, None), "op0": (None, 0.0), "sm0_op": (0.0, 0.1)}[which]
        if valid and where in ("sm", "simulate") and r.random() < 0.3:
            opg = 0.0  # an invalid operator grid is hidden by a valid state-matrix grid
        d.update(k=k.tolist(), grid=where, smg=smg, opg=opg)
        d["expect"] = "ok" if ((smg is not None and smg > 0) or (smg is None and opg is not None and opg > 0)) else "raise"
    elif cls == "states":
        n = int(r.integers(0, 4))
        lead = [None, (), (2,)][r.integers(3)]
        flat3 = bool(r.random() < 0.3)        # focus: the flat [F0+, F0-, Z0] form of a single state
        if flat3:
            n, lead = 0, None
        fp = r.normal(size=2 * n + 1) + 1j * r.normal(size=2 * n + 1)
        z = r.normal(size=2 * n + 1) + 1j * r.normal(size=2 * n + 1)
        z = 0.5 * (z + z[::-1].conj())
        st = np.stack([fp, fp[::-1].conj(), z], axis=-1)
        how = "valid"
        if not valid:
            how = ["ncol", "even", "fsym", "zsym", "len1d"][r.integers(5)]
            if flat3:
                how = ["fsym", "zsym"][r.integers(2)]
            if how == "ncol":
                st = st[:, :2] if r.random() < 0.5 else np.concatenate([st, st[:, :1]], axis=1)
            elif how == "even":
                st = np.concatenate([st, st[-1:]], axis=0)
            elif how == "fsym":
                i = int(r.integers(2 * n + 1))
                st[i, int(r.integers(2))] += float(10.0 ** r.uniform(-3, 1)) * (1 if r.random() < 0.5 else 1j)
            elif how == "zsym":
                i = int(r.integers(2 * n + 1))
                st[i, 2] += 1j * float(10.0 ** r.uniform(-3, 1)) if (i == n or r.random() < 0.5) else float(10.0 ** r.uniform(-3, 1))
            elif how == "len1d":
                st = r.normal(size=[2, 4, 5][r.integers(3)])
                lead = None
        if lead is not None and st.ndim == 2:
            st = np.broadcast_to(st, lead + st.shape).copy()
        elif lead is None and st.shape == (1, 3) and how in ("valid", "fsym", "zsym") and (flat3 or r.random() < 0.6):
            st = st.reshape(3)          # the flat [F0+, F0-, Z0] form
        d.update(states=st, how=how, route=["StateMatrix", "simulate"][r.integers(2)])
    elif cls == "scalar_coeff":
        lead = [(), (1,), (2,)][r.integers(3)]
        a = r.normal(size=lead) + 1j * r.normal(size=lead)
        c = r.normal(size=lead) + 0j
        arr = np.stack([a, np.conj(a), c], axis=-1)
        how = "valid"
        if not valid:
            how = ["ncol", "conj", "imagz"][r.integers(3)]
            if how == "ncol":
                arr = arr[..., :2]
            elif how == "conj":
                arr[..., 1] = arr[..., 1] + float(10.0 ** r.uniform(-3, 1))
            else:
                arr[..., 2] = arr[..., 2] + 1j * float(10.0 ** r.uniform(-3, 1))
        d.update(arr=arr, how=how)
    elif cls == "matrix_coeff":
        import epgpy

        lead = [(), (2,)][r.integers(2)]
        al = r.uniform(10, 170, size=lead)
        m = np.asarray(epgpy.transition.rotation_operator(al, float(r.uniform(-90, 90))))
        m = np.array(m)
        how = "valid"
        if not valid:
            how = ["shape", "sym"][r.integers(2)]
            if how == "shape":
                m = m[..., :2] if r.random() < 0.5 else m[..., :2, :]
            else:
                i, j = int(r.integers(3)), int(r.integers(3))
                m[..., i, j] = m[..., i, j] + (1j if (i == 2 and j == 2) else 1) * float(10.0 ** r.uniform(-3, 1))
        d.update(mat=m, how=how)
    elif cls == "shapes":
        # operator batch shape vs state-matrix shape (leading-axis alignment)
        smshape = tuple(int(x) for x in r.integers(1, 4, size=int(r.integers(1, 4))))
        opshape = list(smshape[: int(r.integers(1, len(smshape) + 1))]) if r.random() < 0.7 else list(smshape) + [int(r.integers(1, 4))]
        for i in range(len(opshape)):
            if r.random() < 0.3:
                opshape[i] = 1
        if not valid:
            cand = [i for i in range(min(len(opshape), len(smshape))) if smshape[i] > 1]
            if not cand:
                smshape = (2,) + smshape[1:]
                opshape[0] = 3
            else:
                i = cand[int(r.integers(len(cand)))]
                opshape[i] = smshape[i] + int(r.integers(1, 3))
        d.update(smshape=list(smshape), opshape=opshape, via=["T", "E", "multi", "simulate"][r.integers(4)])
    elif cls == "kinetic":
        n = int(r.integers(2, 5))
        K = r.uniform(0.01, 0.5, size=(n, n))
        K = K + K.T  # symmetric rates: equal populations conserve
        np.fill_diagonal(K, 0)
        K = K - np.diag(K.sum(axis=0))
        K = -K  # epgpy convention: columns sum to zero, positive diagonal
        dens = np.ones(n)
        how = "valid"
        if not valid:
            how = ["nonsquare", "nosum", "noconserve", "1d", "negrate"][r.integers(5)]
            if how == "nonsquare":
                K = K[:, :-1] if n > 2 else np.concatenate([K, K[:, :1]], axis=1)
            elif how == "nosum":
                i, j = int(r.integers(n)), int(r.integers(n))
                K[i, j] += float(10.0 ** r.uniform(-3, 0))
            elif how == "noconserve":
                dens = r.uniform(0.2, 2, size=n)
                dens[0] = dens[1] * (1.5 + r.random())
            elif how == "1d":
                K = K[0]
        d.update(K=K, dens=dens, how=how)
    elif cls == "diffusion":
        kd = int(r.integers(1, 4))
        how = "valid"
        D = r.uniform(0.1, 3) * np.eye(kd) if r.random() < 0.7 else float(r.uniform(0.1, 3))
        k = r.uniform(0.5, 3, size=kd) if r.random() < 0.7 else None
        if not valid:
            how = ["D1d", "Dnonsquare", "mismatch"][r.integers(3)]
            if how == "D1d":
                D = r.uniform(0.1, 3, size=int(r.integers(2, 4)))
            elif how == "Dnonsquare":
                D = r.uniform(0.1, 3, size=(kd, kd + 1))
            else:
                k = r.uniform(0.5, 3, size=kd)
                D = np.eye(kd + 1 if kd < 3 else kd - 1)
        d.update(D=D, k=k, how=how)
    elif cls == "diff_param":
        kind = ["T", "E", "P", "R"][r.integers(4)]
        params = {"T": ["alpha", "phi"], "E": ["tau", "T1", "T2", "g"], "P": ["tau", "g"], "R": ["rT", "rL", "r0"]}[kind]
        how = "valid"
        p = params[int(r.integers(len(params)))]
        q = params[int(r.integers(len(params)))]
        form = ["name", "dict", "order2_pair", "order2_dict", "order2_true"][r.integers(5)]
        if not valid:
            how = ["unknown_name", "unknown_in_dict", "order2_no_order1", "order2_unknown_param", "pair_no_match", "cross_coeff"][r.integers(6)]
        d.update(kind=kind, p=p, q=q, form=form, how=how)
        if valid and form == "order2_true":
            # order2=True ("all second derivatives") on top of a selection / renaming / coefficient map of order1
            style = ["list", "alias", "coef"][r.integers(3)]
            if style == "list":
                sel = [params[i] for i in sorted(r.permutation(len(params))[: int(r.integers(1, len(params) + 1))])]
                o1 = [[x, [x]] for x in sel]
            elif style == "alias":
                sel = [params[i] for i in r.permutation(len(params))[: int(r.integers(1, len(params) + 1))]]
                o1 = [[f"v{i}", [x]] for i, x in enumerate(sel)]
            else:
                o1 = []
                for i in range(int(r.integers(1, 4))):
                    ps = [params[j] for j in r.permutation(len(params))[: int(r.integers(1, 3))]]
                    o1.append([f"v{i}", ps])
            d.update(style=style, o1=o1)
    elif cls == "sequence":
        how = "valid" if valid else ["no_probe", "non_operator", "nested_bad", "empty"][r.integers(4)]
        d.update(how=how)
    elif cls == "seq_vars":
        how = "valid" if valid else ["missing", "unknown_order1", "unknown_order2", "bad_item"][r.integers(4)]
        d.update(how=how)
    elif cls == "pulse":
        n = int(r.integers(1, 12))
        v = r.uniform(0, 1, size=n) * np.exp(1j * r.uniform(-3, 3, size=n))
        v = v / max(1.0, np.max(np.abs(v)) * 1.0000001)
        if valid:
            if r.random() < 0.5:
                # boundary |v| = 1, exactly representable or with an arbitrary phase (|exp(i t)| may round to 1 + 1 ulp)
                v[int(r.integers(n))] = [1.0, -1.0, 1j, np.exp(1j * r.uniform(-3, 3))][r.integers(4)]
        else:
            i = int(r.integers(n))
            v[i] = (1 + float(10.0 ** r.uniform(-6, 2))) * np.exp(1j * r.uniform(-3, 3))
        d.update(values=v, via=["RFPulse", "estimate_rf"][r.integers(2)])
    elif cls == "boundary":
        d.update(which=["zero_duration", "zero_flip", "tau0_E", "tau0_P", "tau0_G?", "zero_T_array", "tau0_X", "zero_exchange"][r.integers(8)])
        d["expect"] = "ok"
    else:
        raise ValueError(cls)
    return d


CLASSES = ["duration", "time", "zero_shift", "shift_ncomp", "float_no_grid", "states", "scalar_coeff", "matrix_coeff", "shapes",
           "kinetic", "diffusion", "diff_param", "sequence", "seq_vars", "pulse", "boundary"]


def run_real(d, epg):
    """execute the descriptor on epgpy; returns ('ok', None) or ('raise', exception class name)"""
    from epgpy import rfpulse, sequence as sq, opscalar, opmatrix, diffusion, exchange

    cls = d["cls"]
    try:
        with warnings.catch_warnings():
            warnings.simplefilter("ignore")
            if cls == "duration":
                v = np.asarray(d["value"]) if not np.isscalar(d["value"]) else d["value"]
                k = d["kind"]
                if d.get("via_copy"):  # the same guard through Operator.copy(duration=...)
                    op = epg.T(30, 0, duration=1.0).copy(duration=v)
                    if not np.array_equal(np.asarray(op.duration), np.asarray(v)):
                        raise AssertionError(f"copy(duration={v!r}) kept duration {op.duration!r}")
                else:
                  op = {"T": lambda: epg.T(30, 0, duration=v), "E": lambda: epg.E(5, 100, 10, duration=v),
                      "S": lambda: epg.S(1, duration=v), "Wait": lambda: epg.Wait(v), "Phi": lambda: epg.Phi(10, duration=v),
                      "P": lambda: epg.P(3, 0.1, duration=v), "R": lambda: epg.R(0.1, 0.01, duration=v)}[k]()
            elif cls == "time":
                v = np.asarray(d["value"]) if not np.isscalar(d["value"]) else d["value"]
                op = {"G": lambda: epg.G(v, 5.0), "C": lambda: epg.C(v), "E": lambda: epg.E(v, 100.0, 10.0),
                      "P": lambda: epg.P(v, 0.1), "X": lambda: epg.X(v, 0.1, axis=np.ndim(v)), "D": lambda: epg.D(v, 1.0),
                      "E_T1": lambda: epg.E(5.0, v, 10.0), "E_T2": lambda: epg.E(5.0, 100.0, v),
                      "X_T2": lambda: epg.X(5.0, 0.1, T2=v, axis=np.ndim(v))}[d["kind"]]()
                if np.any(np.asarray(v) != 0):
                    pass
            elif cls == "zero_shift":
                k = d["k"]
                epg.S(k if np.isscalar(k) else np.asarray(k), kgrid=1.0)
            elif cls == "shift_ncomp":
                epg.S(np.asarray(d["k"]))
            elif cls == "float_no_grid":
                k = np.asarray(d["k"], dtype=float)
                g = d["grid"]
                smg, opg = d["smg"], d["opg"]
                op = epg.S(k, kgrid=opg) if opg is not None else epg.S(k)
                if g == "simulate":
                    epg.simulate([epg.T(30, 0), op, epg.ADC], **({"kgrid": smg} if smg is not None else {}))
                else:
                    sm = epg.StateMatrix(kgrid=smg) if smg is not None else epg.StateMatrix()
                    if d["reuse"]:
                        op(epg.T(30, 0)(epg.StateMatrix(kgrid=0.1)))
                    op(epg.T(30, 0)(sm))
            elif cls == "states":
                if d.get("route") == "simulate":
                    epg.simulate([epg.T(30, 0), epg.ADC], init=d["states"])
                else:
                    epg.StateMatrix(d["states"])
            elif cls == "scalar_coeff":
                opscalar.ScalarOp(d["arr"])
            elif cls == "matrix_coeff":
                opmatrix.MatrixOp(d["mat"])
            elif cls == "shapes":
                sm = epg.StateMatrix(shape=tuple(d["smshape"]))
                osh = tuple(d["opshape"])
                via = d["via"]
                good = epg.StateMatrix(shape=osh)
                if via == "T":
                    op = epg.T(np.full(osh, 30.0), 0)
                    if d["reuse"]:
                        op(good)
                    op(sm)
                elif via == "E":
                    op = epg.E(5, 100, np.full(osh, 10.0))
                    if d["reuse"]:
                        op(good)
                    op(sm)
                elif via == "multi":
                    op = epg.T(np.full(osh, 30.0), 0) * epg.E(5, 100, 10)
                    if d["reuse"]:
                        op(good)
                    op(sm)
                else:
                    epg.simulate([epg.T(np.full(osh, 30.0), 0), epg.ADC], init=sm)
            elif cls == "kinetic":
                K, dens = np.asarray(d["K"]), np.asarray(d["dens"])
                if d["how"] == "negrate":
                    epg.X(5.0, -abs(float(K.flat[1])) - 0.1)
                else:
                    op = epg.X(5.0, K)
                    if d["reuse"] and d["how"] in ("valid", "noconserve"):
                        op(epg.StateMatrix(density=np.ones(len(dens))))
                    sm = epg.StateMatrix(density=dens)
                    op(sm)
            elif cls == "diffusion":
                op = epg.D(5.0, d["D"], d["k"])
                if d["k"] is None:
                    sm = epg.S(1)(epg.T(30, 0)(epg.StateMatrix(kvalue=10.0)))
                    op(sm)
            elif cls == "diff_param":
                mk = {"T": lambda **kw: epg.T(30, 10, **kw), "E": lambda **kw: epg.E(5, 100, 10, 0.1, **kw),
                      "P": lambda **kw: epg.P(5, 0.1, **kw), "R": lambda **kw: epg.R(0.1, 0.02, r0=0.02, **kw)}[d["kind"]]
                p, q, how, form = d["p"], d["q"], d["how"], d["form"]
                if how == "valid" and form == "order2_true":
                    o1 = d["o1"]
                    arg = {"list": [v for v, _ in o1], "alias": {v: ps[0] for v, ps in o1},
                           "coef": {v: {x: 1.5 for x in ps} for v, ps in o1}}[d["style"]]
                    op = mk(order1=arg, order2=True)
                    d["real_pairs"] = sorted({tuple(sorted(map(str, pair))) for pair in op.order2})
                    d["class_pairs"] = sorted({tuple(sorted(map(str, pair))) for pair in type(op).PARAMETERS_ORDER2})
                    kw = None
                elif how == "valid":
                    kw = {"name": dict(order1=p), "dict": dict(order1={"x": {p: 2.0}}),
                          "order2_pair": dict(order1=True, order2=[(p, q)] if _pair_ok(d["kind"], p, q) else [(p, p)]),
                          "order2_dict": dict(order1={"x": {p: 1.0}, "y": {q: 1.0}}, order2={("x", "y"): {}})}[form]
                elif how == "unknown_name":
                    kw = dict(order1="bogus")
                elif how == "unknown_in_dict":
                    kw = dict(order1={"x": {p: 1.0, "bogus": 2.0}})
                elif how == "order2_no_order1":
                    kw = dict(order2=[(p, p)])
                elif how == "order2_unknown_param":
                    kw = dict(order1={"x": {p: 1.0}}, order2={("x", "x"): {"bogus": 1.0}})
                elif how == "pair_no_match":
                    kw = dict(order1={"x": {p: 1.0}}, order2=[("u", "v")])
                else:  # cross_coeff
                    kw = dict(order1={"x": {p: 1.0}}, order2={("x", "u"): {p: 1.0}})
                if kw is not None:
                    mk(**kw)
            elif cls == "sequence":
                how = d["how"]
                seq = {"valid": [epg.T(30, 0), [epg.S(1), [epg.ADC]]], "no_probe": [epg.T(30, 0), epg.S(1)],
                       "non_operator": [epg.T(30, 0), 3.0, epg.ADC], "nested_bad": [epg.T(30, 0), [epg.S(1), ["ADC"]], epg.ADC],
                       "empty": []}[how]
                epg.simulate(seq)
            elif cls == "seq_vars":
                how = d["how"]
                ops = [sq.T("a", 0), sq.E(5, 100, "T2"), sq.ADC]
                if how == "bad_item":
                    sq.Sequence(ops + [epg.T(30, 0)])
                else:
                    s = sq.Sequence(ops)
                    if how == "valid":
                        s.signal(a=30, T2=20); s.jacobian(["T2"], a=30, T2=20)
                    elif how == "missing":
                        s.signal(a=30)
                    elif how == "unknown_order1":
                        s.jacobian(["bogus"], a=30, T2=20)
                    else:
                        s.hessian(["T2", "bogus"], a=30, T2=20)
            elif cls == "pulse":
                if d["via"] == "RFPulse":
                    rfpulse.RFPulse(d["values"], 1.0, rf=0.2)
                else:
                    v = np.abs(d["values"]) + 0j  # constant phase: no scipy needed
                    rfpulse.estimate_rf(v, 30.0)
            elif cls == "boundary":
                w = d["which"]
                sm = epg.S(1)(epg.T(30, 0)(epg.StateMatrix()))
                if w == "zero_duration":
                    epg.T(30, 0, duration=0)(sm); epg.Wait(0)(sm); epg.simulate([epg.T(30, 0, duration=0.0), epg.ADC])
                elif w == "zero_flip":
                    epg.T(0, 0)(sm); epg.T(0.0, 45.0, order1=True)(sm)
                elif w == "tau0_E":
                    epg.E(0, 100, 10)(sm); epg.E(0.0, 100, 10, 0.1, order1=True, duration=True)(sm)
                elif w == "tau0_P":
                    epg.P(0, 0.1)(sm); epg.P(0.0, 0.1, duration=True)(sm)
                elif w == "zero_T_array":
                    epg.T(np.array([0.0, 30.0]), 0)(sm)
                elif w == "tau0_X":
                    epg.X(0.0, 0.1)(epg.StateMatrix(density=np.ones(2)))
                    epg.X(np.zeros((1, 3)), 0.1)(epg.StateMatrix(density=np.ones((2, 3))))
                elif w == "zero_exchange":
                    epg.X(np.array([[1.0, 2.0]]), np.zeros((2, 2)))(epg.StateMatrix(density=np.ones((2, 2))))
                    epg.X(5.0, 0.0)(epg.StateMatrix(density=np.ones(2)))
                else:
                    epg.E(np.array([0.0, 1.0]), 100, 10, duration=True)(sm)
    except Exception as exc:
        return "raise", type(exc).__name__
    return "ok", None


def _pair_ok(kind, p, q):
    return True


def search(r, epg, ncase):
    dis, checked = [], 0
    hits = {}
    for i in range(ncase):
        cls = CLASSES[i % len(CLASSES)]
        d = gen(r, cls)
        got, exc = run_real(d, epg)
        checked += 1
        key = f"{cls}:{d.get('how', d['expect'])}:{got}"
        hits[key] = hits.get(key, 0) + 1
        if got != d["expect"]:
            dis.append({"kind": "c20-guard", "problems": [(f"class {cls}: expected {d['expect']}, epgpy gave {got}", exc)], "input": d})
    return checked, dis, hits
