"""C08 on the real code with differentiation switched on: the well-formedness clauses and "only PD changes the equilibrium"
hold for the main state matrix AND for every partial-derivative state matrix after every operator, whatever form the
declarations take (True / names / alias / coefficient maps, second order as True / names / pairs / coefficient maps), in
place and out of place."""
import warnings

import numpy as np

import wide


def _decl(r, names):
    """(order1, order2) in one of the documented forms over the operator's own parameter names"""
    form = ["true", "names", "alias", "coeff", "coeff2"][r.integers(5)]
    sel = [n for n in names if r.random() < 0.7] or names[:1]
    if form == "true":
        return True, (True if r.random() < 0.5 else None), form
    if form == "names":
        return list(sel), (list(sel) if r.random() < 0.5 else None), form
    if form == "alias":
        o1 = {f"v_{p}": p for p in sel}
        return o1, ([(f"v_{sel[0]}", f"v_{sel[-1]}")] if r.random() < 0.5 else None), form
    if form == "coeff":
        o1 = {"a": {p: float(r.uniform(0.5, 2)) for p in sel}}
        return o1, ([("a", "a")] if r.random() < 0.5 else None), form
    # second-order chain-rule coefficients, as the Sequence layer declares them for non-linear expressions
    o1 = {"a": {p: float(r.uniform(0.5, 2)) for p in sel}}
    o2 = {("a", "a"): {p: float(r.uniform(-1, 1)) for p in sel}}
    return o1, o2, form


def equilibrium_under_declarations(r, epg, ncase):
    dis, checked = [], 0
    for _ in range(ncase):
        plan = []
        for _ in range(int(r.integers(3, 9))):
            k = ["T", "E", "S", "T", "E", "P", "S", "Phi"][r.integers(8)]
            if k == "S":
                plan.append(("S", None, None))
                continue
            names = {"T": ["alpha", "phi"], "E": ["tau", "T1", "T2", "g"], "P": ["tau", "g"], "Phi": ["phi"]}[k]
            vals = {"alpha": float(r.uniform(20, 160)), "phi": float(r.uniform(-90, 90)), "tau": float(r.uniform(2, 12)),
                    "T1": float(r.uniform(300, 1500)), "T2": float(r.uniform(20, 120)), "g": float(r.uniform(-0.05, 0.05))}
            decl = _decl(r, names) if r.random() < 0.7 else (None, None, "none")
            plan.append((k, [vals[n] for n in names], decl))
        inplace = bool(r.random() < 0.6)

        def mk(k, v, decl):
            if k == "S":
                return epg.S(1)
            kw = {}
            if decl[0] is not None:
                kw["order1"] = decl[0]
            if decl[1] is not None:
                kw["order2"] = decl[1]
            return getattr(epg, k)(*v, **kw)

        problems = []
        try:
            with warnings.catch_warnings():
                warnings.simplefilter("ignore")
                sm = epg.StateMatrix()
                eq0 = np.asarray(sm.equilibrium)[..., sm.nstate, :].copy()
                for j, (k, v, decl) in enumerate(plan):
                    sm = mk(k, v, decl)(sm, inplace=inplace)
                    vio = wide.wf_violations(sm)
                    eq = np.asarray(sm.equilibrium)[..., sm.nstate, :]
                    if not np.allclose(eq, eq0, atol=1e-12):
                        vio.append(f"equilibrium changed by a non-PD operator: {eq.tolist()} (was {eq0.tolist()})")
                    for name, part in list(getattr(sm, "order1", {}).items()) + list(getattr(sm, "order2", {}).items()):
                        pst = np.asarray(part.states)
                        if pst.shape != np.asarray(sm.states).shape:
                            vio.append(f"partial {name}: states shape {pst.shape} != {np.asarray(sm.states).shape}")
                        elif not np.allclose(pst[..., 1], pst[..., ::-1, 0].conj(), atol=1e-9) or \
                                not np.allclose(pst[..., 2], pst[..., ::-1, 2].conj(), atol=1e-9):
                            vio.append(f"partial {name}: conjugate symmetry lost")
                    if vio:
                        problems.append((f"after operator {j} ({k}, declaration form {decl[2] if decl else None}, inplace={inplace})", vio[:3]))
                        break
        except Exception as exc:
            problems.append(("raised", repr(exc)[:300]))
        checked += 1
        if problems:
            dis.append({"kind": "c08-declarations", "problems": problems,
                        "input": {"plan": [(k, v, None if d is None else [repr(d[0]), repr(d[1]), d[2]]) for k, v, d in plan], "inplace": inplace}})
    return checked, dis
