"""Continued simulations: a head of operators applied by hand (out of place) to a state matrix, then
simulate(tail, init=<that state matrix, carrying first-order partials>, **options).

 * C02 / C19: the Jacobian of the continued simulation == central finite differences of the SAME two-stage computation
   run without any differentiation (options: none / equilibrium= / max_nstate= / both);
 * C09: the initial state matrix and every partial it carries are byte-identical after the call, and a second call on the
   same object returns the same arrays.
"""
import warnings
import numpy as np


def _gen(r):
    names = ["alpha", "T1", "T2", "tau"]
    val = {"alpha": float(r.uniform(20, 160)), "T1": float(r.uniform(300, 1500)), "T2": float(r.uniform(30, 120)),
           "tau": float(r.uniform(2, 12))}
    nblock = int(r.integers(2, 6))
    blocks = []
    for _ in range(nblock):
        blocks.append({"phi": float(r.uniform(0, 180)), "alpha_scale": float(r.uniform(0.5, 1.2)),
                       "shift": int(r.integers(-1, 2)), "relax": bool(r.random() < 0.85)})
    split = int(r.integers(1, nblock))  # number of blocks applied by hand
    opt = int(r.integers(4))
    options = {}
    if opt in (1, 3):
        options["equilibrium"] = [[0.0, 0.0, float(r.uniform(0.3, 1.5))]]
    if opt in (2, 3):
        options["max_nstate"] = int(r.integers(1, 4))
    return {"values": val, "blocks": blocks, "split": split, "options": options, "vars": names}


def _ops(epg, case, val, diff):
    out = []
    for b in case["blocks"]:
        kw = {"order1": {"alpha": {"alpha": b["alpha_scale"]}}} if diff else {}
        blk = [epg.T(val["alpha"] * b["alpha_scale"], b["phi"], **kw)]
        if b["relax"]:
            kw = {"order1": {"T1": "T1", "T2": "T2", "tau": "tau"}} if diff else {}
            blk.append(epg.E(val["tau"], val["T1"], val["T2"], 0.01, **kw))
        if b["shift"]:
            blk.append(epg.S(b["shift"]))
        out.append(blk)
    return out


def _staged(epg, case, val, diff, probe):
    blocks = _ops(epg, case, val, diff)
    sm = epg.StateMatrix()
    for blk in blocks[: case["split"]]:
        for op in blk:
            sm = op(sm)
    tail = [op for blk in blocks[case["split"]:] for op in blk] + [epg.ADC]
    return sm, tail, probe


def _snap(sm):
    out = {"states": np.array(sm.states).tobytes(), "eq": np.array(sm.equilibrium).tobytes(),
           "shape": tuple(np.shape(sm.states))}
    for v, p in (getattr(sm, "order1", None) or {}).items():
        out[("o1", v)] = (tuple(np.shape(p.states)), np.array(p.states).tobytes(), np.array(p.equilibrium).tobytes())
    return out


def continued(r, epg, ncase):
    """returns (n, jacobian_disagreements, purity_disagreements)"""
    dj, dp, n = [], [], 0
    for _ in range(ncase):
        case = _gen(r)
        V = case["vars"]
        val = case["values"]
        try:
            with warnings.catch_warnings():
                warnings.simplefilter("ignore")
                sm, tail, _ = _staged(epg, case, val, True, None)
                before = _snap(sm)
                probe = ["F0", "Z0", epg.Jacobian(V)]
                res1 = epg.simulate(tail, init=sm, probe=probe, asarray=False, **case["options"])
                after1 = _snap(sm)
                res2 = epg.simulate(tail, init=sm, probe=probe, asarray=False, **case["options"])
                after2 = _snap(sm)

                def plain(v):
                    s, t, _ = _staged(epg, case, v, False, None)
                    o = epg.simulate(t, init=s, probe=["F0", "Z0"], asarray=False, **case["options"])
                    return np.array([np.ravel(o[0][-1])[0], np.ravel(o[1][-1])[0]], dtype=complex)

                fd = {}
                for v in V:
                    h = 1e-4 * abs(val[v])
                    up = dict(val); up[v] = val[v] + h
                    dn = dict(val); dn[v] = val[v] - h
                    fd[v] = (plain(up) - plain(dn)) / (2 * h)
                base = plain(val)
        except Exception as exc:
            item = {"kind": "continued-raised", "problems": [("raised", repr(exc))], "input": case}
            dj.append(item); dp.append(item)
            continue
        n += 1
        f0 = np.ravel(res1[0][-1])[0]; z0 = np.ravel(res1[1][-1])[0]
        jac = np.asarray(res1[2][-1]).reshape(-1)
        probs = []
        if abs(f0 - base[0]) > 1e-9 or abs(z0 - base[1]) > 1e-9:
            probs.append(("signal changed by differentiation", complex(f0), complex(base[0])))
        for i, v in enumerate(V):
            scale = max(1.0, abs(val[v])) ** -1
            if abs(jac[i] - fd[v][0]) > 1e-6 * max(scale, abs(fd[v][0])) + 1e-9:
                probs.append((f"continued simulation: dF0/d{v} differs from finite differences of the same two-stage computation",
                              complex(jac[i]), complex(fd[v][0])))
        if probs:
            dj.append({"kind": "continued-jacobian", "problems": probs, "input": case})
        probs = []
        for tag, after in (("first", after1), ("second", after2)):
            for key in before:
                if before[key] != after.get(key):
                    probs.append((f"simulate(init=sm) changed its initial state matrix ({tag} call)", str(key)))
                    break
        for a, b in zip(res1, res2):
            if not np.array_equal(np.asarray(a[-1]), np.asarray(b[-1])):
                probs.append(("second simulate() call on the same initial state matrix returns different values",))
                break
        if probs:
            dp.append({"kind": "continued-purity", "problems": probs, "input": case})
    return n, dj, dp
