"""C02 on the real code, vectorised: Jacobian columns of sequences whose parameters are arrays on DIFFERENT grid axes
(each parameter of one operator with its own number of axes) against central finite differences of the plain,
undifferentiated vectorised simulation."""
import warnings

import numpy as np


def vector_jacobian_fd(r, epg, ncase):
    dis, checked = [], 0
    for _ in range(ncase):
        n, m = int(r.integers(2, 4)), int(r.integers(2, 4))
        if r.random() < 0.5:
            m = n                           # square grids: a misplaced axis is then silently wrong instead of an error
        lay = [("T2", (n,), "T1", (1, m)), ("T1", (n,), "T2", (1, m)), ("T2", (n, 1), "T1", (1, m)), ("tau", (n,), "T2", (1, m)),
               ("g", (n,), "T2", (1, m)), ("T2", (n,), "g", (1, m))][r.integers(6)]
        base = {"tau": 6.0, "T1": 700.0, "T2": 60.0, "g": 0.02}
        lo_hi = {"tau": (3, 12), "T1": (300, 1500), "T2": (30, 120), "g": (-0.05, 0.05)}
        vals = dict(base)
        vals[lay[0]] = r.uniform(*lo_hi[lay[0]], size=lay[1])
        vals[lay[2]] = r.uniform(*lo_hi[lay[2]], size=lay[3])
        alpha = float(r.uniform(30, 150))
        declared = [lay[0], lay[2]] if r.random() < 0.7 else ["T2", "T1", "tau", "g"]
        form = ["list", "true", "alias", "coeff"][r.integers(4)]

        def decl():
            if form == "list":
                return list(declared)
            if form == "true":
                return True
            if form == "alias":
                return {p: p for p in declared}
            return {p: {p: 1.0} for p in declared}

        def seq(v, diff):
            kw = {"order1": decl()} if diff else {}
            return [epg.T(alpha, 90.0), epg.E(v["tau"], v["T1"], v["T2"], v["g"], **kw), epg.S(1), epg.T(alpha * 0.8, 20.0),
                    epg.E(v["tau"], v["T1"], v["T2"], v["g"], **kw), epg.S(1), epg.ADC, epg.Adc("Z0")]

        variables = [lay[0], lay[2]]
        problems = []
        try:
            with warnings.catch_warnings():
                warnings.simplefilter("ignore")
                res = epg.simulate(seq(vals, True), probe=[epg.ADC, epg.Adc("Z0"), epg.Jacobian(variables), epg.Jacobian(variables, probe="Z0")])
                for vi, p in enumerate(variables):
                    h = 1e-4 * (abs(np.mean(vals[p])) + 1e-3)
                    up, dn = dict(vals), dict(vals)
                    up[p] = vals[p] + h
                    dn[p] = vals[p] - h
                    fu = epg.simulate(seq(up, False), probe=[epg.ADC, epg.Adc("Z0")])
                    fd_ = epg.simulate(seq(dn, False), probe=[epg.ADC, epg.Adc("Z0")])
                    for q, jq in ((0, 2), (1, 3)):
                        fd = (np.asarray(fu[q]) - np.asarray(fd_[q])) / (2 * h)
                        col = np.asarray(res[jq])[..., vi]
                        if col.shape != fd.shape:
                            col = np.broadcast_to(col, fd.shape) if col.size <= fd.size else col
                        sc = max(1e-12, float(np.max(np.abs(fd))))
                        if col.shape != fd.shape or np.max(np.abs(col - fd)) > 2e-5 * sc + 1e-13 / h + 1e-9:   # + round-off of the difference quotient
                            problems.append((f"d/d{p} of {'F0' if q == 0 else 'Z0'} (Jacobian, finite difference)",
                                             np.ravel(col)[:4].tolist(), np.ravel(fd)[:4].tolist()))
                            break
                    if problems:
                        break
        except Exception as exc:
            problems.append(("raised", repr(exc)[:300]))
        checked += 1
        if problems:
            dis.append({"kind": "c02-vector-fd", "problems": problems,
                        "input": {"layout": [lay[0], list(lay[1]), lay[2], list(lay[3])], "form": form, "declared": declared,
                                  "values": {k: np.asarray(v).tolist() for k, v in vals.items()}, "alpha": alpha}})
    return checked, dis
