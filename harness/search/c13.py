"""Searches of C13 on the real code: truncation horizon (1-D and n-D), no state beyond the cap,
merge exactness at x = 0 and its bound, partials-pruner bound, pruning bound."""
import warnings

import numpy as np

import lib
from prog import pick


def rf_relax(r, batch=None):
    out = []
    a = pick(r, 10, 170, (90, 180))
    if batch:
        a = r.uniform(20, 170, size=batch).tolist()
    out.append(("T", a, pick(r, -180, 180, (0, 90))))
    if r.random() < 0.6:
        out.append(("E", pick(r, 0.5, 20), pick(r, 200, 2000), pick(r, 20, 150), pick(r, -0.05, 0.05, (0.0,))))
    return out


def build(seq, epg):
    ops = []
    for o in seq:
        if o[0] == "T":
            ops.append(epg.T(o[1], o[2]))
        elif o[0] == "E":
            ops.append(epg.E(o[1], o[2], o[3], o[4]))
        elif o[0] == "S":
            ops.append(epg.S(o[1]))
        elif o[0] == "Snd":
            ops.append(epg.S(np.asarray(o[1], dtype=int)))
        elif o[0] == "Sf":
            # prune=0 on the operator as well: `sm.options.get("prune") or self.prune` falls back to the operator's 1e-8
            ops.append(epg.S(np.asarray(o[1], dtype=float), prune=0, **({"kgrid": o[2]} if len(o) > 2 else {})))
        elif o[0] == "ADC":
            ops.append(epg.ADC)
        elif o[0] == "ADCZ":
            ops.append(epg.Adc("Z0"))
    return ops


def horizon(r, epg, ncase):
    """acquisitions made while the accumulated absolute shift (per component) is <= 2n+1 are identical"""
    dis, checked, dist = [], 0, {"1d": 0, "nd": 0}
    for _ in range(ncase):
        nd = r.random() < 0.4
        dim = int(r.integers(1, 4)) if nd else 1
        n = int(r.integers(1, 5))
        seq, acc, flags = [], np.zeros(dim, dtype=int), []
        for _ in range(int(r.integers(2, 12))):
            seq += rf_relax(r)
            if nd:
                v = r.integers(-2, 3, size=dim)
                if not v.any():
                    v[r.integers(dim)] = 1
                seq.append(("Snd", v.tolist()))
                acc += np.abs(v)
            else:
                k = int(r.integers(1, 4)) * (1 if r.random() < 0.55 else -1)
                seq.append(("S", k))
                acc += abs(k)
            seq += [("ADC",), ("ADCZ",)]
            flags += [bool(np.all(acc <= 2 * n + 1))] * 2
        dist["nd" if nd else "1d"] += 1
        try:
            with warnings.catch_warnings():
                warnings.simplefilter("ignore")
                full = np.asarray(epg.simulate(build(seq, epg), prune=0)).reshape(len(flags))
                # state count / coordinates under the cap
                sm = epg.StateMatrix(max_nstate=n)
                worst = 0
                for op in build([o for o in seq if o[0] not in ("ADC", "ADCZ")], epg):
                    sm = op(sm, inplace=True)
                    worst = max(worst, sm.nstate if sm.coords is None else int(np.max(np.abs(sm.coords))))
                tr = np.asarray(epg.simulate(build(seq, epg), max_nstate=n)).reshape(len(flags))
        except Exception as exc:
            dis.append({"kind": "c13-horizon", "problems": [("raised", repr(exc))], "input": {"seq": seq, "cap": n}})
            continue
        checked += len(flags)
        if worst > n:
            dis.append({"kind": "c13-horizon", "problems": [("state index beyond the cap", worst, n)], "input": {"seq": seq, "cap": n}})
            continue
        for i, ok in enumerate(flags):
            if ok and abs(tr[i] - full[i]) > 1e-10:
                dis.append({"kind": "c13-horizon", "problems": [("acquisition within the horizon differs", i, complex(tr[i]), complex(full[i]))],
                            "input": {"seq": seq, "cap": n}})
                break
    return checked, dis, dist


def merge_exact(r, epg, ncase):
    """gridded shifts: merging adds amplitudes exactly (value at x = 0 unchanged) and moves a value at x by
    at most cell*|x|*sum|amp| per merge"""
    dis, checked = [], 0
    for _ in range(ncase):
        dim = int(r.integers(1, 4))
        fine = 0.01
        seq, nmerge = [], 0
        for _ in range(int(r.integers(2, 8))):
            seq += rf_relax(r)
            v = np.round(r.uniform(-2, 2, size=dim), 2)
            if not v.any():
                v[0] = 0.5
            seq.append(("Sf", v.tolist()))
            nmerge += 1
        coarse = float([0.5, 1.0, 2.5][r.integers(3)])
        x = r.uniform(-0.2, 0.2, size=dim)
        # the grid may change in the middle of a sequence: fine first, coarse for the last shifts
        switch = int(r.integers(0, len(seq))) if r.random() < 0.5 else None
        try:
            with warnings.catch_warnings():
                warnings.simplefilter("ignore")
                vals = {}
                for name, grid in (("fine", fine), ("coarse", coarse)):
                    if switch is None:
                        sm = epg.StateMatrix(kgrid=grid, prune=0)
                        ops = build(seq, epg)
                    else:
                        sm = epg.StateMatrix(prune=0)
                        ops = build([(o[0], o[1], fine if (i < switch or name == "fine") else coarse) if o[0] == "Sf" else o
                                     for i, o in enumerate(seq)], epg)
                    for op in ops:
                        sm = op(sm, inplace=True)
                    F, Z, k = np.asarray(sm.F)[0], np.asarray(sm.Z)[0], np.asarray(sm.k)[0]
                    ph = np.exp(1j * (k[:, :dim] @ x))
                    vals[name] = (F.sum(), Z.sum(), (F * ph).sum(), np.abs(F).sum() + np.abs(Z).sum())
        except Exception as exc:
            dis.append({"kind": "c13-merge", "problems": [("raised", repr(exc))], "input": {"seq": seq, "grid": coarse}})
            continue
        checked += 1
        f0, c0 = vals["fine"], vals["coarse"]
        if abs(f0[0] - c0[0]) > 1e-9 or abs(f0[1] - c0[1]) > 1e-9:
            dis.append({"kind": "c13-merge", "problems": [("value reconstructed at x=0 changed by merging", abs(f0[0] - c0[0]), abs(f0[1] - c0[1]))],
                        "input": {"seq": seq, "grid": coarse, "switch": switch}})
            continue
        bound = coarse * np.sqrt(dim) * float(np.linalg.norm(x)) * f0[3] * nmerge * 3 + 1e-9
        if abs(f0[2] - c0[2]) > bound:
            dis.append({"kind": "c13-merge", "problems": [("value at x moved beyond cell*|x|*sum|amp| per merge", abs(f0[2] - c0[2]), bound)],
                        "input": {"seq": seq, "grid": coarse, "x": x.tolist()}})
    return checked, dis


def partials_pruner(r, epg, ncase):
    """removing negligible partials changes a Jacobian entry by at most the threshold per removal"""
    from epgpy import diff as D

    dis, checked = [], 0
    for _ in range(ncase):
        batch = [None, (2,), (3,)][r.integers(3)]
        thr = float([1e-6, 1e-4, 1e-3][r.integers(3)])
        necho = int(r.integers(5, 40))
        if batch is None:
            T2 = pick(r, 10, 120)
        else:
            # heterogeneous batches: one signal decays fast (its partials become negligible early), the others do not
            t2 = r.uniform(60, 200, size=batch)
            if r.random() < 0.8:
                t2[int(r.integers(batch[0]))] = float(r.uniform(3, 9))
            T2 = t2.tolist()
        T1 = pick(r, 300, 1500)
        a = pick(r, 100, 180)
        seq = [epg.T(90, 90)]
        for _ in range(necho):
            seq += [epg.E(4, T1, T2, order1="T2"), epg.S(1), epg.T(a, 0, order1="alpha"), epg.S(1), epg.E(4, T1, T2, order1="T2"), epg.ADC]
        removed = [0]
        nonneg = []  # removed partials that were NOT negligible for some signal of the batch

        class Counting(D.PartialsPruner):
            def __call__(self, sm):
                before = dict(getattr(sm, "order1", {}))
                norms = {v: np.asarray(p.norm).copy() for v, p in before.items()}
                super().__call__(sm)
                after = getattr(sm, "order1", {})
                for v in before:
                    if v not in after:
                        removed[0] += 1
                        if np.any(norms[v] >= thr):
                            nonneg.append((v, norms[v].tolist()))

        try:
            with warnings.catch_warnings():
                warnings.simplefilter("ignore")
                J0 = np.asarray(epg.simulate(seq, probe=epg.Jacobian(["T2", "alpha"])))
                J1 = np.asarray(epg.simulate(seq, probe=epg.Jacobian(["T2", "alpha"]), callback=Counting(condition=thr)))
        except Exception as exc:
            dis.append({"kind": "c13-pruner", "problems": [("raised", repr(exc))], "input": {"necho": necho, "T2": T2, "thr": thr}})
            continue
        checked += 1
        err = float(np.max(np.abs(J0 - J1)))
        if nonneg:
            dis.append({"kind": "c13-pruner", "problems": [("a partial that is not negligible for every signal was removed (variable, norms per signal, threshold)",
                                                             nonneg[0][0], nonneg[0][1], thr)],
                        "input": {"necho": necho, "T1": T1, "T2": T2, "alpha": a, "thr": thr}})
        elif err > thr * max(removed[0], 1) * (1 + 1e-6):
            dis.append({"kind": "c13-pruner", "problems": [("Jacobian changed by more than threshold x removals", err, thr, removed[0])],
                        "input": {"necho": necho, "T1": T1, "T2": T2, "alpha": a, "thr": thr}})
    return checked, dis


def prune_bound(r, epg, ncase):
    """pruning below eps changes any acquired value by at most 2*eps*(cumulative number of states); never the zero state"""
    dis, checked = [], 0
    for _ in range(ncase):
        dim = int(r.integers(1, 3))
        eps = float([1e-6, 1e-4, 1e-2][r.integers(3)])
        seq = []
        for _ in range(int(r.integers(2, 9))):
            seq += rf_relax(r)
            v = r.integers(-2, 3, size=dim)
            if not v.any():
                v[0] = 1
            seq.append(("Snd", v.tolist()))
            seq += [("ADC",), ("ADCZ",)]
        try:
            with warnings.catch_warnings():
                warnings.simplefilter("ignore")
                ops0 = [epg.S(np.asarray(o[1]), prune=0) if o[0] == "Snd" else build([o], epg)[0] for o in seq]
                ops1 = [epg.S(np.asarray(o[1]), prune=eps) if o[0] == "Snd" else build([o], epg)[0] for o in seq]
                v0 = np.asarray(epg.simulate(ops0)).reshape(-1)
                v1 = np.asarray(epg.simulate(ops1)).reshape(-1)
                sm = epg.StateMatrix()
                cum, bounds = 0, []
                for o, op in zip(seq, ops0):
                    if o[0] in ("ADC", "ADCZ"):
                        bounds.append(2 * eps * cum)
                        continue
                    sm = op(sm, inplace=True)
                    if o[0] == "Snd":
                        cum += 2 * sm.nstate + 1
        except Exception as exc:
            dis.append({"kind": "c13-prune", "problems": [("raised", repr(exc))], "input": {"seq": seq, "eps": eps}})
            continue
        checked += len(v0)
        for i in range(len(v0)):
            if abs(v0[i] - v1[i]) > bounds[i] + 1e-12:
                dis.append({"kind": "c13-prune", "problems": [("pruning error above 2*eps*cumulative states", i, abs(v0[i] - v1[i]), bounds[i])],
                            "input": {"seq": seq, "eps": eps}})
                break
    return checked, dis
