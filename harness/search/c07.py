"""C07 on the real code: vectorised simulation == stack of scalar simulations (signals, Jacobians,
Hessians), output shape, `axes=` placement, incompatible shapes raise; and `common.broadcast_shapes`
against the Lean shape model."""
import itertools
import warnings

import numpy as np

import lib
from prog import pick

BATCHES = [(2,), (3,), (2, 1), (1, 3), (2, 3), (1, 1, 2), (2, 1, 2)]


def compat_shapes(r, nops):
    """pick a target grid and give every operator a sub-shape of it (singletons / fewer axes)"""
    grid = BATCHES[r.integers(len(BATCHES))]
    out = []
    for _ in range(nops):
        out.append(grid if r.random() < 0.8 else ())
    return grid, out


def arr(r, lo, hi, shape):
    """array over an independent sub-shape of `shape`: a prefix of its axes, some of them singleton
    (every parameter of one operator may have a different number of axes)"""
    if shape == () or r.random() < 0.25:
        return float(r.uniform(lo, hi))
    k = int(r.integers(1, len(shape) + 1))
    sub = tuple(d if r.random() < 0.7 else 1 for d in shape[:k])
    return r.uniform(lo, hi, size=sub)


def gen_case(r):
    L = int(r.integers(2, 8))
    grid, shapes = compat_shapes(r, L)
    ops = []
    deriv = r.random() < 0.5
    second = deriv and r.random() < 0.5
    for i in range(L):
        k = ["T", "E", "S", "T", "E", "P", "P", "Phi", "R", "PD", "SPOILER"][r.integers(11)]
        sh = shapes[i]
        o = {"op": k}
        if k == "T":
            o.update(alpha=arr(r, 10, 170, sh), phi=arr(r, -90, 90, () if r.random() < 0.5 else sh))
        elif k == "E":
            o.update(tau=arr(r, 1, 20, () if r.random() < 0.6 else sh), T1=arr(r, 200, 2000, sh),
                     T2=arr(r, 20, 150, sh), g=arr(r, -0.05, 0.05, () if r.random() < 0.6 else sh))
        elif k == "P":
            o.update(tau=arr(r, 1, 20, sh), g=arr(r, -0.05, 0.05, sh))
            if sh != () and len(sh) > 1 and r.random() < 0.5:   # both arrays, different numbers of axes
                o.update(tau=r.uniform(1, 20, size=sh[:1]), g=r.uniform(-0.05, 0.05, size=sh))
                if r.random() < 0.5:
                    o["tau"], o["g"] = r.uniform(1, 20, size=sh), r.uniform(-0.05, 0.05, size=sh[:1])
        elif k == "Phi":
            o.update(phi=arr(r, -90, 90, sh))
        elif k == "R":
            o.update(rT=arr(r, 0.1, 1, sh), rL=arr(r, 0.1, 1, ()), r0=arr(r, 0.1, 1, ()))
        elif k == "PD":
            o.update(pd=arr(r, 0.5, 2, sh), reset=bool(r.random() < 0.5))
        elif k == "S":
            o.update(k=int(r.integers(1, 3)) * (1 if r.random() < 0.7 else -1))
        if k in ("T", "E", "P", "Phi") and deriv and r.random() < 0.6:
            names = {"T": ["alpha", "phi"], "E": ["T2", "T1", "tau"], "P": ["g"], "Phi": ["phi"]}[k]
            sel = [n for n in names if r.random() < 0.6] or names[:1]
            o["order1"] = sel
            if second:   # automatic mode: all parameters of the operator at second order
                o["order1"] = True
                o["order2"] = True
        if k in ("T", "E", "P", "Phi", "R") and sh != () and len(sh) < len(grid) and r.random() < 0.2:
            o["axes"] = None  # placeholder: `axes=` cases are generated separately
        ops.append(o)
    return {"ops": ops, "grid": grid, "deriv": deriv}


def build(o, epg, index=None, grid=None):
    """epgpy operator; with `index`, the scalar operator at that index of the broadcast grid"""
    def pick_(v):
        if index is None or not isinstance(v, np.ndarray):
            return v
        idx = tuple(0 if v.shape[ax] == 1 else index[ax] for ax in range(v.ndim))   # append alignment
        return float(v[idx])

    k = o["op"]
    kw = {}
    if o.get("order1") is True:
        kw["order1"] = True
        if o.get("order2"):
            kw["order2"] = True
    elif o.get("order1"):
        kw["order1"] = list(o["order1"])
    if k == "T":
        return epg.T(pick_(o["alpha"]), pick_(o["phi"]), **kw)
    if k == "E":
        return epg.E(pick_(o["tau"]), pick_(o["T1"]), pick_(o["T2"]), pick_(o["g"]), **kw)
    if k == "P":
        return epg.P(pick_(o["tau"]), pick_(o["g"]), **kw)
    if k == "Phi":
        return epg.Phi(pick_(o["phi"]), **kw)
    if k == "R":
        return epg.R(pick_(o["rT"]), pick_(o["rL"]), r0=pick_(o["r0"]))
    if k == "PD":
        return epg.PD(pick_(o["pd"]), reset=o["reset"])
    if k == "S":
        return epg.S(o["k"])
    if k == "SPOILER":
        return epg.SPOILER
    raise ValueError(k)


def vec_vs_scalar(r, epg, ncase):
    dis, checked = [], 0
    for _ in range(ncase):
        case = gen_case(r)
        ops = case["ops"]
        PN = {"T": ["alpha", "phi"], "E": ["tau", "T1", "T2", "g"], "P": ["tau", "g"], "Phi": ["phi"]}
        variables = sorted({v for o in ops for v in (PN[o["op"]] if o.get("order1") is True else (o.get("order1") or []))})
        hess = any(o.get("order2") for o in ops)
        try:
            with warnings.catch_warnings():
                warnings.simplefilter("ignore")
                seq = [build(o, epg) for o in ops]
                shape = tuple(epg.getshape(seq))
                probes = [epg.ADC, epg.Adc("Z0")] + ([epg.Jacobian(variables)] if variables else []) \
                    + ([epg.Hessian(variables)] if (variables and hess) else [])
                res = epg.simulate(seq + [epg.ADC], probe=probes)
        except Exception as exc:
            dis.append({"kind": "c07-vector", "problems": [("vectorised simulate raised", repr(exc)[:200])], "input": describe(case)})
            continue
        checked += 1
        sig = np.asarray(res[0])
        problems = []
        if tuple(sig.shape) != (1,) + shape:
            problems.append(("output shape", tuple(sig.shape), (1,) + shape))
        else:
            for index in itertools.product(*[range(n) for n in shape]):
                with warnings.catch_warnings():
                    warnings.simplefilter("ignore")
                    sseq = [build(o, epg, index) for o in ops]
                    sres = epg.simulate(sseq + [epg.ADC], probe=probes)
                for pi, (a, b) in enumerate(zip(res, sres)):
                    a = np.asarray(a)[(0,) + index]
                    b = np.asarray(b).reshape(np.asarray(a).shape)
                    if not np.allclose(a, b, rtol=1e-9, atol=1e-12):
                        problems.append((f"probe {pi} at index {index}", float(np.max(np.abs(a - b)))))
                        break
                if problems:
                    break
        if problems:
            dis.append({"kind": "c07-vector", "problems": problems, "input": describe(case)})
    return checked, dis


def describe(case):
    return {"grid": list(case["grid"]), "ops": [{k: (v.tolist() if isinstance(v, np.ndarray) else v) for k, v in o.items()} for o in case["ops"]]}


def axes_placement(r, epg, ncase):
    """`axes=k` places a 1-D parameter on axis k: equals passing the array reshaped with k leading singletons"""
    dis, checked = [], 0
    for _ in range(ncase):
        n, m = int(r.integers(2, 4)), int(r.integers(2, 4))
        a1 = r.uniform(20, 160, size=n)
        t2 = r.uniform(20, 150, size=m)
        k = int(r.integers(1, 3))
        deriv = r.random() < 0.5
        kw = {"order1": True} if deriv else {}
        try:
            with warnings.catch_warnings():
                warnings.simplefilter("ignore")
                seqA = [epg.T(a1, 90), epg.E(5, 800, t2, axes=k, **kw), epg.S(1), epg.T(150, 0), epg.S(1),
                        epg.E(5, 800, t2, axes=k, **kw), epg.ADC]
                t2r = t2.reshape((1,) * k + (m,))
                seqB = [epg.T(a1, 90), epg.E(5, 800, t2r, **kw), epg.S(1), epg.T(150, 0), epg.S(1), epg.E(5, 800, t2r, **kw), epg.ADC]
                probes = [epg.ADC] + ([epg.Jacobian(["T2"])] if deriv else [])
                A = epg.simulate(seqA, probe=probes)
                B = epg.simulate(seqB, probe=probes)
        except Exception as exc:
            dis.append({"kind": "c07-axes", "problems": [("raised", repr(exc)[:200])], "input": {"n": n, "m": m, "axes": k, "deriv": deriv}})
            continue
        checked += 1
        for x, y in zip(A, B):
            x, y = np.asarray(x), np.asarray(y)
            if x.shape != y.shape or not np.allclose(x, y, rtol=1e-10, atol=1e-13):
                dis.append({"kind": "c07-axes", "problems": [("axes= result differs from explicit singleton axes", x.shape, y.shape)],
                            "input": {"n": n, "m": m, "axes": k, "deriv": deriv, "alpha": a1.tolist(), "T2": t2.tolist()}})
                break
    return checked, dis


def incompatible_raise(r, epg, ncase):
    dis, checked = [], 0
    for _ in range(ncase):
        n = int(r.integers(2, 5))
        m = n + int(r.integers(1, 3))
        lead = () if r.random() < 0.5 else (int(r.integers(1, 3)),)
        a = r.uniform(20, 160, size=lead + (n,))
        b = r.uniform(20, 150, size=lead + (m,))
        checked += 1
        try:
            with warnings.catch_warnings():
                warnings.simplefilter("ignore")
                epg.simulate([epg.T(a, 90), epg.E(5, 800, b), epg.ADC])
            dis.append({"kind": "c07-incompatible", "problems": [("incompatible shapes broadcast silently", list(a.shape), list(b.shape))],
                        "input": {"alpha_shape": list(a.shape), "T2_shape": list(b.shape)}})
        except Exception:
            pass
    return checked, dis


def shapes_vs_model(r, ncase):
    from epgpy import common

    lines, expect = [], []
    pool = [(), (1,), (2,), (3,), (2, 1), (1, 3), (2, 3), (3, 2), (1, 1, 4), (2, 1, 4), (2, 3, 4), (4,), (1, 2)]
    for _ in range(ncase):
        k = int(r.integers(1, 5))
        shapes = [pool[r.integers(len(pool))] for _ in range(k)]
        try:
            exp = "shape " + ("x".join(map(str, common.broadcast_shapes(*shapes, [1], append=True))))
            ok = True
        except ValueError:
            exp, ok = "err ValueError", False
        if common.broadcastable(*shapes, append=True) != ok:
            expect.append(("inconsistent", shapes))
        else:
            expect.append((exp, shapes))
        lines.append("bcast " + " ".join(("-" if s == () else "x".join(map(str, s))) for s in shapes))
    out = lib.run_driver(lines)
    dis = []
    for (exp, shapes), got in zip(expect, out):
        if exp == "inconsistent":
            dis.append({"kind": "c07-shapes", "problems": [("broadcastable() and broadcast_shapes() disagree",)], "input": [list(s) for s in shapes]})
        elif exp != got:
            dis.append({"kind": "c07-shapes", "problems": [("broadcast_shapes vs model", exp, got)], "input": [list(s) for s in shapes]})
    return len(expect), dis


def ndim_mismatch_sweep(r, epg):
    """deterministic sweep: every differentiable operator, every ordered pair of its parameters given as arrays
    with different numbers of axes ((n,) and (n,m)), all derivatives on: vectorised vs scalar at every index"""
    specs = {
        "T": (["alpha", "phi"], {"alpha": (20, 160), "phi": (-80, 80)}),
        "E": (["tau", "T1", "T2", "g"], {"tau": (2, 15), "T1": (300, 1500), "T2": (20, 120), "g": (-0.04, 0.04)}),
        "P": (["tau", "g"], {"tau": (2, 15), "g": (-0.04, 0.04)}),
    }
    dis, checked = [], 0
    n, m = 2, 3
    for kind, (names, rng_) in specs.items():
        for p in names:
            for q in names:
                if p == q:
                    continue
                vals = {x: float(r.uniform(*rng_[x])) for x in names}
                vals[p] = r.uniform(*rng_[p], size=(n,))
                vals[q] = r.uniform(*rng_[q], size=(n, m))

                def seq(index=None):
                    def g(x):
                        v = vals[x]
                        if index is None or not isinstance(v, np.ndarray):
                            return v
                        return float(v[tuple(index[: v.ndim])])
                    op = getattr(epg, kind)(*[g(x) for x in names], order1=True, order2=True)
                    return [epg.T(70, 20), epg.E(3, 700, 60), epg.S(1), op, epg.T(50, -30), epg.S(-1), op, epg.ADC]

                V = names
                probes = [epg.ADC, epg.Jacobian(V), epg.Hessian(V)]
                checked += 1
                try:
                    with warnings.catch_warnings():
                        warnings.simplefilter("ignore")
                        res = epg.simulate(seq(), probe=probes)
                        bad = None
                        for index in itertools.product(range(n), range(m)):
                            sres = epg.simulate(seq(index), probe=probes)
                            for pi, (a, b) in enumerate(zip(res, sres)):
                                a = np.asarray(a)[(0,) + index]
                                b = np.asarray(b).reshape(a.shape)
                                if not np.allclose(a, b, rtol=1e-9, atol=1e-12):
                                    bad = (f"{kind}: {p} (n,) with {q} (n,m): probe {pi} at {index}", float(np.max(np.abs(a - b))))
                                    break
                            if bad:
                                break
                except Exception as exc:
                    bad = (f"{kind}: {p} (n,) with {q} (n,m): raised", repr(exc)[:160])
                if bad:
                    dis.append({"kind": "c07-ndim-sweep", "problems": [bad],
                                "input": {"op": kind, "params": {x: (v.tolist() if isinstance(v, np.ndarray) else v) for x, v in vals.items()}}})
    return checked, dis
