"""C07 on the real code: vectorised simulation == stack of scalar simulations (signals, Jacobians,
Hessians), output shape, `axes=` placement, incompatible shapes raise; and `common.broadcast_shapes`
against the Lean shape model."""
import itertools
import warnings

import numpy as np

import lib
from prog import pick

BATCHES = [(2,), (3,), (2, 1), (1, 3), (2, 3), (1, 1, 2), (2, 1, 2)]


def compat_shapes(r, nops):
    """pick a target grid and give every operator a sub-shape of it (singletons / fewer axes)"""
    grid = BATCHES[r.integers(len(BATCHES))]
    out = []
    for _ in range(nops):
        out.append(grid if r.random() < 0.8 else ())
    return grid, out


def arr(r, lo, hi, shape):
    """array over an independent sub-shape of `shape`: a prefix of its axes, some of them singleton
    (every parameter of one operator may have a different number of axes)"""
    if shape == () or r.random() < 0.25:
        return float(r.uniform(lo, hi))
    k = int(r.integers(1, len(shape) + 1))
    sub = tuple(d if r.random() < 0.7 else 1 for d in shape[:k])
    return r.uniform(lo, hi, size=sub)


def gen_case(r):
    L = int(r.integers(2, 8))
    grid, shapes = compat_shapes(r, L)
    ops = []
    deriv = r.random() < 0.5
    second = deriv and r.random() < 0.5
    for i in range(L):
        k = ["T", "E", "S", "T", "E", "P", "P", "Phi", "R", "PD", "SPOILER"][r.integers(11)]
        sh = shapes[i]
        o = {"op": k}
        if k == "T":
            o.update(alpha=arr(r, 10, 170, sh), phi=arr(r, -90, 90, () if r.random() < 0.5 else sh))
        elif k == "E":
            o.update(tau=arr(r, 1, 20, () if r.random() < 0.6 else sh), T1=arr(r, 200, 2000, sh),
                     T2=arr(r, 20, 150, sh), g=arr(r, -0.05, 0.05, () if r.random() < 0.6 else sh))
        elif k == "P":
            o.update(tau=arr(r, 1, 20, sh), g=arr(r, -0.05, 0.05, sh))
            if sh != () and len(sh) > 1 and r.random() < 0.5:   # both arrays, different numbers of axes
                o.update(tau=r.uniform(1, 20, size=sh[:1]), g=r.uniform(-0.05, 0.05, size=sh))
                if r.random() < 0.5:
                    o["tau"], o["g"] = r.uniform(1, 20, size=sh), r.uniform(-0.05, 0.05, size=sh[:1])
        elif k == "Phi":
            o.update(phi=arr(r, -90, 90, sh))
        elif k == "R":
            o.update(rT=arr(r, 0.1, 1, sh), rL=arr(r, 0.1, 1, ()), r0=arr(r, 0.1, 1, ()))
        elif k == "PD":
            o.update(pd=arr(r, 0.5, 2, sh), reset=bool(r.random() < 0.5))
        elif k == "S":
            o.update(k=int(r.integers(1, 3)) * (1 if r.random() < 0.7 else -1))
        if k in ("T", "E", "P", "Phi") and deriv and r.random() < 0.6:
            names = {"T": ["alpha", "phi"], "E": ["T2", "T1", "tau"], "P": ["g"], "Phi": ["phi"]}[k]
            sel = [n for n in names if r.random() < 0.6] or names[:1]
            o["order1"] = sel
            if second:   # automatic mode: all parameters of the operator at second order
                o["order1"] = True
                o["order2"] = True
        if k in ("T", "E", "P", "Phi", "R") and sh != () and len(sh) < len(grid) and r.random() < 0.2:
            o["axes"] = None  # placeholder: `axes=` cases are generated separately
        ops.append(o)
    return {"ops": ops, "grid": grid, "deriv": deriv}


def build(o, epg, index=None, grid=None):
    """epgpy operator; with `index`, the scalar operator at that index of the broadcast grid"""
    def pick_(v):
        if index is None or not isinstance(v, np.ndarray):
            return v
        idx = tuple(0 if v.shape[ax] == 1 else index[ax] for ax in range(v.ndim))   # append alignment
        return float(v[idx])

    k = o["op"]
    kw = {}
    if o.get("order1") is True:
        kw["order1"] = True
        if o.get("order2"):
            kw["order2"] = True
    elif o.get("order1"):
        kw["order1"] = list(o["order1"])
    if k == "T":
        return epg.T(pick_(o["alpha"]), pick_(o["phi"]), **kw)
    if k == "E":
        return epg.E(pick_(o["tau"]), pick_(o["T1"]), pick_(o["T2"]), pick_(o["g"]), **kw)
    if k == "P":
        return epg.P(pick_(o["tau"]), pick_(o["g"]), **kw)
    if k == "Phi":
        return epg.Phi(pick_(o["phi"]), **kw)
    if k == "R":
        return epg.R(pick_(o["rT"]), pick_(o["rL"]), r0=pick_(o["r0"]))
    if k == "PD":
        return epg.PD(pick_(o["pd"]), reset=o["reset"])
    if k == "S":
        return epg.S(o["k"])
    if k == "SPOILER":
        return epg.SPOILER
    raise ValueError(k)


def vec_vs_scalar(r, epg, ncase):
    dis, checked = [], 0
    for _ in range(ncase):
        case = gen_case(r)
        ops = case["ops"]
        PN = {"T": ["alpha", "phi"], "E": ["tau", "T1", "T2", "g"], "P": ["tau", "g"], "Phi": ["phi"]}
        variables = sorted({v for o in ops for v in (PN[o["op"]] if o.get("order1") is True else (o.get("order1") or []))})
        hess = any(o.get("order2") for o in ops)
        try:
            with warnings.catch_warnings():
                warnings.simplefilter("ignore")
                seq = [build(o, epg) for o in ops]
                shape = tuple(epg.getshape(seq))
                probes = [epg.ADC, epg.Adc("Z0")] + ([epg.Jacobian(variables)] if variables else []) \
                    + ([epg.Hessian(variables)] if (variables and hess) else [])
                res = epg.simulate(seq + [epg.ADC], probe=probes)
        except Exception as exc:
            dis.append({"kind": "c07-vector", "problems": [("vectorised simulate raised", repr(exc)[:200])], "input": describe(case)})
            continue
        checked += 1
        sig = np.asarray(res[0])
        problems = []
        if tuple(sig.shape) != (1,) + shape:
            problems.append(("output shape", tuple(sig.shape), (1,) + shape))
        else:
            for index in itertools.product(*[range(n) for n in shape]):
                with warnings.catch_warnings():
                    warnings.simplefilter("ignore")
                    sseq = [build(o, epg, index) for o in ops]
                    sres = epg.simulate(sseq + [epg.ADC], probe=probes)
                for pi, (a, b) in enumerate(zip(res, sres)):
                    a = np.asarray(a)[(0,) + index]
                    b = np.asarray(b).reshape(np.asarray(a).shape)
                    if not np.allclose(a, b, rtol=1e-9, atol=1e-12):
                        problems.append((f"probe {pi} at index {index}", float(np.max(np.abs(a - b)))))
                        break
                if problems:
                    break
        if problems:
            dis.append({"kind": "c07-vector", "problems": problems, "input": describe(case)})
    return checked, dis


def describe(case):
    return {"grid": list(case["grid"]), "ops": [{k: (v.tolist() if isinstance(v, np.ndarray) else v) for k, v in o.items()} for o in case["ops"]]}


def _compare_grid(epg, mk, shape, probes, kind, desc, dis):
    """vectorised run of `mk(None)` against the scalar runs `mk(index)` at every index of `shape`"""
    try:
        with warnings.catch_warnings():
            warnings.simplefilter("ignore")
            seq = mk(None)
            gshape = tuple(epg.getshape(seq))
            res = epg.simulate(seq, probe=probes)
    except Exception as exc:
        dis.append({"kind": kind, "problems": [("vectorised simulate raised", repr(exc)[:300])], "input": desc})
        return
    problems = []
    if gshape != tuple(shape):
        problems.append(("getshape", gshape, tuple(shape)))
    else:
        for index in itertools.product(*[range(n) for n in shape]):
            with warnings.catch_warnings():
                warnings.simplefilter("ignore")
                sres = epg.simulate(mk(index), probe=probes)
            for pi, (a, b) in enumerate(zip(res, sres)):
                a = np.asarray(a)
                if a.shape[1:1 + len(shape)] != tuple(shape):
                    problems.append((f"probe {pi} output shape", a.shape, tuple(shape)))
                    break
                a = a[(slice(None),) + index]
                b = np.asarray(b).reshape(a.shape)
                if not np.allclose(a, b, rtol=1e-9, atol=1e-12):
                    problems.append((f"probe {pi} at index {index} (vectorised, scalar)", a.ravel()[:4].tolist(), b.ravel()[:4].tolist()))
                    break
            if problems:
                break
    if problems:
        dis.append({"kind": kind, "problems": problems, "input": desc})


def grid3_vs_scalar(r, epg, ncase):
    """three parameters on three different grid axes through `axes=` (array given 1-D), with first / second derivatives of
    scalar (E, P) and matrix (T, Phi) operators: signals, Jacobian and Hessian against the scalar runs"""
    dis, checked = [], 0
    for _ in range(ncase):
        n = [int(r.integers(2, 4)) for _ in range(3)]
        perm = [int(x) for x in r.permutation(3)]          # which axis carries alpha / T2 / g (or phi)
        al = r.uniform(20, 160, size=n[perm[0]])
        t2 = r.uniform(20, 150, size=n[perm[1]])
        third = ["g", "phi", "tau"][r.integers(3)]
        x3 = {"g": r.uniform(-0.05, 0.05, size=n[perm[2]]), "phi": r.uniform(-90, 90, size=n[perm[2]]),
              "tau": r.uniform(2, 12, size=n[perm[2]])}[third]
        second = bool(r.random() < 0.5)
        kw = {"order1": True, "order2": True} if second else {"order1": True}

        def mk(index, al=al, t2=t2, x3=x3, third=third, perm=perm, kw=kw):
            def val(v, slot):
                return v if index is None else float(v[index[perm[slot]]])
            ax = (lambda slot: {"axes": perm[slot]}) if index is None else (lambda slot: {})
            g = val(x3, 2) if third == "g" else 0.02
            tau = val(x3, 2) if third == "tau" else 5.0
            ekw = dict(kw)
            seq = [epg.T(val(al, 0), 90, **ax(0), **kw)]
            if third == "g":
                seq += [epg.E(5.0, 800.0, val(t2, 1), **ax(1), **ekw), epg.P(4.0, g, **ax(2), **{"order1": True})]
            elif third == "tau":
                seq += [epg.E(5.0, 800.0, val(t2, 1), **ax(1), **ekw), epg.E(tau, 600.0, 70.0, 0.01, **ax(2), **ekw)]
            else:
                seq += [epg.E(5.0, 800.0, val(t2, 1), **ax(1), **ekw), epg.Phi(val(x3, 2), **ax(2), **{"order1": True})]
            seq += [epg.S(1), epg.T(val(al, 0), 10, **ax(0), **kw), epg.E(5.0, 800.0, val(t2, 1), **ax(1), **ekw), epg.S(1), epg.ADC]
            return seq

        names = ["alpha", "T2"] + ({"g": ["g"], "phi": ["phi"], "tau": ["tau"]}[third])
        probes = [epg.ADC, epg.Adc("Z0"), epg.Jacobian(names)] + ([epg.Hessian(names)] if second else [])
        shape = [0, 0, 0]
        for slot in range(3):
            shape[perm[slot]] = n[perm[slot]]
        checked += 1
        _compare_grid(epg, mk, tuple(shape), probes, "c07-grid3",
                      {"n": n, "perm": perm, "third": third, "second": second, "alpha": al.tolist(), "T2": t2.tolist(), "x3": x3.tolist()}, dis)
    return checked, dis


def batched_ops_vs_scalar(r, epg, ncase):
    """operators whose array parameter is not a coefficient table: D with an array of diffusion times, S / G with a shift
    per batch entry (same rank as the grid or lower, equal or different patterns per entry): signals against scalar runs"""
    dis, checked = [], 0
    for _ in range(ncase):
        kind = ["D-tau", "S-lower-rank", "S-patterns", "S-float"][r.integers(4)]
        n0, n1 = int(r.integers(2, 4)), int(r.integers(2, 4))
        al = r.uniform(20, 160, size=n1)
        if kind == "D-tau":
            taus = r.uniform(2, 15, size=n0)
            tensor = bool(r.random() < 0.4)
            Dval = (np.diag(r.uniform(0.5e-3, 3e-3, size=2)) if tensor else float(r.uniform(0.5e-3, 3e-3)))
            withk = bool(r.random() < 0.5)
            kvec = [1, 0] if tensor else 1

            def mk(index, taus=taus, al=al, Dval=Dval, withk=withk, kvec=kvec):
                t = taus if index is None else float(taus[index[0]])
                a = al.reshape(1, -1) if index is None else float(al[index[1]])
                d = lambda: epg.D(t, Dval, **({"k": kvec} if withk else {}))
                return [epg.T(a, 90), epg.S(kvec), d(), epg.E(5.0, 500.0, 50.0), epg.T(a, 0), epg.S(kvec), d(), epg.ADC]

            opts = {"kvalue": 5000.0}
            desc = {"kind": kind, "taus": taus.tolist(), "alpha": al.tolist(), "D": np.asarray(Dval).tolist(), "k_arg": withk}
        else:
            nsh = int(r.integers(2, 4))
            if kind == "S-lower-rank":      # one shift per entry of axis 0, given with rank 1 in a rank-2 grid
                ks = [np.repeat(r.integers(1, 3, size=(1, 1)), n0, axis=0) * r.integers(1, 3, size=(n0, 1)) for _ in range(nsh)]
            elif kind == "S-patterns":      # different, non-proportional patterns per entry
                ks = [r.integers(-2, 3, size=(n0, 1)) for _ in range(nsh)]
                for k in ks:
                    k[k == 0] = 1
            else:                            # gridded float shifts
                ks = [np.round(r.integers(-2, 3, size=(n0, 1)) * 0.5 + 0.0, 3) for _ in range(nsh)]
                for k in ks:
                    k[k == 0] = 0.5
            rank2 = bool(r.random() < 0.5) and kind != "S-lower-rank"

            def mk(index, ks=ks, al=al, rank2=rank2, kind=kind):
                a = al.reshape(1, -1) if index is None else float(al[index[1]])
                seq = [epg.T(a, 90)]
                for j, k in enumerate(ks):
                    if index is None:
                        kk = k.reshape(k.shape[0], 1, 1) if rank2 else k
                    else:
                        kk = k[index[0]]
                        kk = [float(kk[0])] if kind == "S-float" else [int(kk[0])]
                    seq += [epg.S(kk), epg.E(4.0, 700.0, 60.0), epg.T(a * 0.5 + 20 * j, 15 * j), epg.ADC, epg.Adc("Z0")]
                return seq

            opts = {"kgrid": 0.5} if kind == "S-float" else {}
            desc = {"kind": kind, "ks": [k.tolist() for k in ks], "alpha": al.tolist(), "rank2": rank2}
        checked += 1
        sim = epg.simulate

        class _E:   # simulate with the options of this case
            def __getattr__(self, name):
                return getattr(epg, name)

            def simulate(self, seq, probe=None):
                return sim(seq, **opts)
        _compare_grid_plain(_E(), mk, (n0, n1), "c07-batched-ops", desc, dis)
    return checked, dis


def _compare_grid_plain(epg, mk, shape, kind, desc, dis):
    try:
        with warnings.catch_warnings():
            warnings.simplefilter("ignore")
            seq = mk(None)
            gshape = tuple(epg.getshape(seq))
            res = np.asarray(epg.simulate(seq))
    except Exception as exc:
        dis.append({"kind": kind, "problems": [("vectorised simulate raised", repr(exc)[:300])], "input": desc})
        return
    problems = []
    if gshape != tuple(shape) or res.shape[1:] != tuple(shape):
        problems.append(("shape (getshape, result)", gshape, res.shape, tuple(shape)))
    else:
        for index in itertools.product(*[range(n) for n in shape]):
            with warnings.catch_warnings():
                warnings.simplefilter("ignore")
                b = np.asarray(epg.simulate(mk(index))).reshape(-1)
            a = res[(slice(None),) + index].reshape(-1)
            if not np.allclose(a, b, rtol=1e-9, atol=1e-12):
                problems.append((f"signals at index {index} (vectorised, scalar)", a.tolist(), b.tolist()))
                break
    if problems:
        dis.append({"kind": kind, "problems": problems, "input": desc})


def axes_placement(r, epg, ncase):
    """`axes=k` places a 1-D parameter on axis k: equals passing the array reshaped with k leading singletons"""
    dis, checked = [], 0
    for _ in range(ncase):
        n, m = int(r.integers(2, 4)), int(r.integers(2, 4))
        a1 = r.uniform(20, 160, size=n)
        t2 = r.uniform(20, 150, size=m)
        k = int(r.integers(1, 3))
        deriv = r.random() < 0.5
        kw = {"order1": True} if deriv else {}
        try:
            with warnings.catch_warnings():
                warnings.simplefilter("ignore")
                seqA = [epg.T(a1, 90), epg.E(5, 800, t2, axes=k, **kw), epg.S(1), epg.T(150, 0), epg.S(1),
                        epg.E(5, 800, t2, axes=k, **kw), epg.ADC]
                t2r = t2.reshape((1,) * k + (m,))
                seqB = [epg.T(a1, 90), epg.E(5, 800, t2r, **kw), epg.S(1), epg.T(150, 0), epg.S(1), epg.E(5, 800, t2r, **kw), epg.ADC]
                probes = [epg.ADC] + ([epg.Jacobian(["T2"])] if deriv else [])
                A = epg.simulate(seqA, probe=probes)
                B = epg.simulate(seqB, probe=probes)
        except Exception as exc:
            dis.append({"kind": "c07-axes", "problems": [("raised", repr(exc)[:200])], "input": {"n": n, "m": m, "axes": k, "deriv": deriv}})
            continue
        checked += 1
        for x, y in zip(A, B):
            x, y = np.asarray(x), np.asarray(y)
            if x.shape != y.shape or not np.allclose(x, y, rtol=1e-10, atol=1e-13):
                dis.append({"kind": "c07-axes", "problems": [("axes= result differs from explicit singleton axes", x.shape, y.shape)],
                            "input": {"n": n, "m": m, "axes": k, "deriv": deriv, "alpha": a1.tolist(), "T2": t2.tolist()}})
                break
    return checked, dis


def incompatible_raise(r, epg, ncase):
    dis, checked = [], 0
    for _ in range(ncase):
        n = int(r.integers(2, 5))
        m = n + int(r.integers(1, 3))
        lead = () if r.random() < 0.5 else (int(r.integers(1, 3)),)
        a = r.uniform(20, 160, size=lead + (n,))
        b = r.uniform(20, 150, size=lead + (m,))
        checked += 1
        try:
            with warnings.catch_warnings():
                warnings.simplefilter("ignore")
                epg.simulate([epg.T(a, 90), epg.E(5, 800, b), epg.ADC])
            dis.append({"kind": "c07-incompatible", "problems": [("incompatible shapes broadcast silently", list(a.shape), list(b.shape))],
                        "input": {"alpha_shape": list(a.shape), "T2_shape": list(b.shape)}})
        except Exception:
            pass
    return checked, dis


def shapes_vs_model(r, ncase):
    from epgpy import common

    lines, expect = [], []
    pool = [(), (1,), (2,), (3,), (2, 1), (1, 3), (2, 3), (3, 2), (1, 1, 4), (2, 1, 4), (2, 3, 4), (4,), (1, 2)]
    for _ in range(ncase):
        k = int(r.integers(1, 5))
        shapes = [pool[r.integers(len(pool))] for _ in range(k)]
        try:
            exp = "shape " + ("x".join(map(str, common.broadcast_shapes(*shapes, [1], append=True))))
            ok = True
        except ValueError:
            exp, ok = "err ValueError", False
        if common.broadcastable(*shapes, append=True) != ok:
            expect.append(("inconsistent", shapes))
        else:
            expect.append((exp, shapes))
        lines.append("bcast " + " ".join(("-" if s == () else "x".join(map(str, s))) for s in shapes))
    out = lib.run_driver(lines)
    dis = []
    for (exp, shapes), got in zip(expect, out):
        if exp == "inconsistent":
            dis.append({"kind": "c07-shapes", "problems": [("broadcastable() and broadcast_shapes() disagree",)], "input": [list(s) for s in shapes]})
        elif exp != got:
            dis.append({"kind": "c07-shapes", "problems": [("broadcast_shapes vs model", exp, got)], "input": [list(s) for s in shapes]})
    return len(expect), dis


def shape_helpers_vs_model(r, ncase):
    """`common.set_axes` (int and tuple `axes`, 0-2 coefficient axes), `common.expand_shapes` (append / prepend) on the
    real code vs the Lean definitions `Shp.setAxesFull` / `Shp.expandAppend` / `Shp.expandPrepend`"""
    from epgpy import common

    tok = lambda s: "-" if len(s) == 0 else "x".join(map(str, s))
    lines, expect, inputs = [], [], []
    for _ in range(ncase):
        ndim = int(r.integers(0, 3))
        nb = int(r.integers(0, 4))
        shp = tuple(int(x) for x in r.integers(1, 5, size=nb)) + (3,) * ndim
        if r.random() < 0.5:
            kind, ax = "int", int(r.integers(0, 4))
            axtok = str(ax)
        else:
            kind = "tuple"
            n = nb if r.random() < 0.8 else int(r.integers(0, 4))
            ax = tuple(int(x) for x in r.permutation(5)[:n])
            if r.random() < 0.6:
                ax = tuple(sorted(ax))
            axtok = tok(ax)
        if kind == "tuple" and len(set(ax)) == len(ax) and len(ax) != nb and len(ax) > 0:
            pass  # a tuple that does not list every batch axis: numpy decides; still compared
        try:
            out = common.set_axes(ndim, np.zeros(shp), ax).shape
            exp = "shape " + tok(out)
        except Exception:
            exp = "err"
        lines.append(f"gsetax {ndim} {tok(shp)} {kind} {axtok}")
        expect.append(exp); inputs.append({"fn": "set_axes", "ndim": ndim, "shape": shp, "axes": ax})
        mode = "append" if r.random() < 0.5 else "prepend"
        s1 = tuple(int(x) for x in r.integers(1, 5, size=int(r.integers(0, 4))))
        s2 = tuple(int(x) for x in r.integers(1, 5, size=int(r.integers(0, 5))))
        o1, o2 = common.expand_shapes(s1, s2, append=(mode == "append"))
        nd = max(len(s1), len(s2))
        for si, oi in ((s1, o1), (s2, o2)):
            lines.append(f"gexpand {mode} {nd} {tok(si)}")
            expect.append("shape " + tok(tuple(oi))); inputs.append({"fn": "expand_shapes", "mode": mode, "shape": si, "ndim": nd})
    out = lib.run_driver(lines)
    dis = []
    for exp, got, inp in zip(expect, out, inputs):
        if exp != got.strip():
            dis.append({"kind": "c07-shape-helpers", "problems": [("epgpy vs the Lean model", exp, got)], "input": inp})
    if len(out) != len(expect):
        dis.append({"kind": "c07-shape-helpers", "problems": [("driver lines", len(out), len(expect))], "input": {}})
    return len(expect), dis


def adc_phase_reuse(r, epg, ncase):
    """one `Adc(phase=<array over the first grid axis>)` object used in simulations over grids of different rank, one after
    the other ((n, m), then (n,), then (n, m) again): every output has shape (nadc,) + getshape(seq) and equals, at every
    grid index, the scalar simulation with the plain ADC times the defining phasor exp(i pi phase / 180)"""
    dis, checked = [], 0
    for _ in range(ncase):
        n, m = int(r.integers(2, 5)), int(r.integers(2, 4))
        phase = r.uniform(0, 360, size=n)
        alpha = r.uniform(20, 150, size=n)
        t2 = r.uniform(30, 120, size=(1, m))
        adc = epg.Adc(phase=phase)
        order = [(n, m), (n,), (n, m)] if r.random() < 0.7 else [(n,), (n, m), (n,)]

        def seq(shape, a, T2):
            return [epg.T(a, 30), epg.E(5, 1000, T2), epg.S(1), epg.T(2 * np.asarray(a), 0), epg.S(1), epg.E(5, 1000, T2), adc]

        probs = []
        try:
            for k, shape in enumerate(order):
                full = len(shape) == 2
                out = np.asarray(epg.simulate(seq(shape, alpha, t2 if full else 80.0)))
                if out.shape != (1,) + shape:
                    probs.append((f"use #{k + 1} of the same Adc over a {shape} grid: output shape", out.shape, (1,) + shape))
                    break
                for idx in np.ndindex(*shape):
                    a = float(alpha[idx[0]])
                    T2 = float(t2[0, idx[1]]) if full else 80.0
                    ref = epg.simulate([epg.T(a, 30), epg.E(5, 1000, T2), epg.S(1), epg.T(2 * a, 0), epg.S(1), epg.E(5, 1000, T2), epg.ADC])
                    ref = np.ravel(ref)[0] * np.exp(1j * np.pi * phase[idx[0]] / 180)
                    if abs(out[(0,) + idx] - ref) > 1e-10:
                        probs.append((f"use #{k + 1} of the same Adc over a {shape} grid, index {idx}", complex(out[(0,) + idx]), complex(ref)))
                        break
                if probs:
                    break
        except Exception as exc:
            probs.append(("raised", repr(exc)))
        checked += 1
        if probs:
            dis.append({"kind": "c07-adc-reuse", "problems": probs, "input": {"n": n, "m": m, "order": order, "phase": phase.tolist()}})
    return checked, dis


def ndim_mismatch_sweep(r, epg):
    """deterministic sweep: every differentiable operator, every ordered pair of its parameters given as arrays
    with different numbers of axes ((n,) and (n,m)), all derivatives on: vectorised vs scalar at every index"""
    specs = {
        "T": (["alpha", "phi"], {"alpha": (20, 160), "phi": (-80, 80)}),
        "E": (["tau", "T1", "T2", "g"], {"tau": (2, 15), "T1": (300, 1500), "T2": (20, 120), "g": (-0.04, 0.04)}),
        "P": (["tau", "g"], {"tau": (2, 15), "g": (-0.04, 0.04)}),
    }
    dis, checked = [], 0
    n, m = 2, 3
    for kind, (names, rng_) in specs.items():
        for p in names:
            for q in names:
                if p == q:
                    continue
                vals = {x: float(r.uniform(*rng_[x])) for x in names}
                vals[p] = r.uniform(*rng_[p], size=(n,))
                vals[q] = r.uniform(*rng_[q], size=(n, m))

                def seq(index=None):
                    def g(x):
                        v = vals[x]
                        if index is None or not isinstance(v, np.ndarray):
                            return v
                        return float(v[tuple(index[: v.ndim])])
                    op = getattr(epg, kind)(*[g(x) for x in names], order1=True, order2=True)
                    return [epg.T(70, 20), epg.E(3, 700, 60), epg.S(1), op, epg.T(50, -30), epg.S(-1), op, epg.ADC]

                V = names
                probes = [epg.ADC, epg.Jacobian(V), epg.Hessian(V)]
                checked += 1
                try:
                    with warnings.catch_warnings():
                        warnings.simplefilter("ignore")
                        res = epg.simulate(seq(), probe=probes)
                        bad = None
                        for index in itertools.product(range(n), range(m)):
                            sres = epg.simulate(seq(index), probe=probes)
                            for pi, (a, b) in enumerate(zip(res, sres)):
                                a = np.asarray(a)[(0,) + index]
                                b = np.asarray(b).reshape(a.shape)
                                if not np.allclose(a, b, rtol=1e-9, atol=1e-12):
                                    bad = (f"{kind}: {p} (n,) with {q} (n,m): probe {pi} at {index}", float(np.max(np.abs(a - b))))
                                    break
                            if bad:
                                break
                except Exception as exc:
                    bad = (f"{kind}: {p} (n,) with {q} (n,m): raised", repr(exc)[:160])
                if bad:
                    dis.append({"kind": "c07-ndim-sweep", "problems": [bad],
                                "input": {"op": kind, "params": {x: (v.tolist() if isinstance(v, np.ndarray) else v) for x, v in vals.items()}}})
    return checked, dis
