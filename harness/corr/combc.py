"""C10: nesting / `*` grouping / `@` combination against sequential application on the real code
(the value-level laws are theorems in Props/C10.lean; here the code's array plumbing is exercised)."""
import warnings

import numpy as np

import lib
import prog
from diffc import PARAMS


def rand_params(r, kind, batch):
    """operator arguments, some as arrays with the given batch shape (append-aligned)"""
    def val(lo, hi):
        if batch is not None and r.random() < 0.5:
            return r.uniform(lo, hi, size=batch)
        return float(r.uniform(lo, hi))

    if kind == "T":
        return [val(-170, 170), val(-170, 170)]
    if kind == "Phi":
        return [val(-170, 170)]
    if kind == "E":
        return [val(0.5, 20), val(200, 2000), val(20, 150), val(-0.05, 0.05)]
    if kind == "P":
        return [val(0.5, 20), val(-0.05, 0.05)]
    if kind == "R":
        return [val(0.1, 1.0), val(0.1, 1.0)]
    raise ValueError(kind)


def mk(epg, kind, args, decl, dur):
    kw = dict(decl or {})
    if dur is not None:
        kw["duration"] = dur
    if kind == "R":
        return epg.R(args[0], args[1], r0=args[1], **kw)
    return getattr(epg, kind)(*args, **kw)


def gen_chain(r, identity_decl=True):
    """chain of operators that `@` accepts: one scalar class (E.., P.., R..), one matrix class (T.., Phi..),
    or T mixed with E (MatrixOp accepts ScalarOp).  Declarations are consistent along the chain:
    first order only, or first and second order (explicit pairs) on every declaring operator."""
    n = int(r.integers(2, 5))
    c = r.random()
    if c < 0.2:
        kinds = ["E"] * n
    elif c < 0.3:
        kinds = ["P"] * n
    elif c < 0.4:
        kinds = ["R"] * n
    elif c < 0.65:
        kinds = ["T"] * n
    elif c < 0.75:
        kinds = ["Phi"] * n
    else:
        kinds = [["T", "E"][r.integers(2)] for _ in range(n)]
        if "T" not in kinds:
            kinds[0] = "T"
    second = r.random() < 0.5
    batches = [None, (2,), (3,), (2, 1), (1, 3), (2, 3)]
    items = []
    for k in kinds:
        batch = batches[r.integers(len(batches))] if r.random() < 0.5 else None
        decl = None
        if r.random() < 0.6:
            ps = [p for p in PARAMS[k] if not (k == "R" and p == "r0")]
            sel = [str(p) for p in r.permutation(ps)[: int(r.integers(1, len(ps) + 1))]]
            decl = {"order1": sel}
            if second:
                decl["order2"] = [(a, b) for i, a in enumerate(sorted(sel)) for b in sorted(sel)[i:]]
        items.append({"kind": k, "args": rand_params(r, k, batch), "decl": decl,
                      "dur": float(np.round(r.uniform(0, 5), 2)) if r.random() < 0.5 else None})
    if second:
        # explicit mode, consistently: every operator lists every requested pair that involves one of its variables
        allv = sorted({v for it in items if it["decl"] for v in it["decl"]["order1"]})
        pairs = [(a, b) for i, a in enumerate(allv) for b in allv[i:]]
        for it in items:
            if it["decl"]:
                mine = set(it["decl"]["order1"])
                it["decl"]["order2"] = [p for p in pairs if set(p) & mine]
    return items


def compatible(items):
    shapes = []
    for it in items:
        shp = ()
        for a in it["args"]:
            if isinstance(a, np.ndarray):
                shp = a.shape if len(a.shape) > len(shp) else shp
        shapes.append(shp)
    nd = max(len(s) for s in shapes)
    ext = [tuple(s) + (1,) * (nd - len(s)) for s in shapes]
    for ax in range(nd):
        d = {e[ax] for e in ext} - {1}
        if len(d) > 1:
            return False
    return True


def cmp_sm(a, b, tol=1e-10):
    out = []
    A, B = np.asarray(a.states), np.asarray(b.states)
    if A.shape != B.shape:
        out.append(("state shape", A.shape, B.shape))
    elif np.max(np.abs(A - B)) > tol * max(1.0, float(np.max(np.abs(B)))):
        out.append(("states", float(np.max(np.abs(A - B)))))
    for name in ("order1", "order2"):
        da, db = getattr(a, name, {}) or {}, getattr(b, name, {}) or {}
        if set(da) != set(db):
            out.append((name + " keys", sorted(map(str, set(da) ^ set(db)))))
        for k in set(da) & set(db):
            X, Y = np.asarray(da[k].states), np.asarray(db[k].states)
            if X.shape != Y.shape:
                out.append((f"{name}[{k}] shape", X.shape, Y.shape))
            elif np.max(np.abs(X - Y)) > tol * max(1.0, float(np.max(np.abs(Y)))):
                out.append((f"{name}[{k}]", float(np.max(np.abs(X - Y)))))
    return out


def compare_combine(r, epg, ncase):
    dis, checked, dist = [], 0, {"scalar": 0, "matrix": 0, "with_decl": 0}
    for _ in range(ncase):
        items = gen_chain(r)
        if not compatible(items):
            continue
        try:
            with warnings.catch_warnings():
                warnings.simplefilter("ignore")
                ops = [mk(epg, it["kind"], it["args"], it["decl"], it["dur"]) for it in items]
                st = np.array([[0.3 + 0.2j, 0.3 - 0.2j, 0.6]])
                # state pre-broadcast to the chain's shape, as simulate() does (direct application to a
                # smaller state does not expand the partials it carries: see DESIGN, remarks)
                sm0 = epg.StateMatrix(st[0], shape=epg.getshape(ops))
                # a state that already carries partials of an unrelated variable
                if r.random() < 0.5:
                    sm0 = epg.T(35.0, 10.0, order1={"pre": "alpha"})(sm0)
                seq = sm0
                for op in ops:
                    seq = op(seq)
                left = ops[0]
                for op in ops[1:]:
                    left = left @ op
                right = ops[-1]
                for op in reversed(ops[:-1]):
                    right = op @ right
        except TypeError as exc:
            if "unsupported operand" in str(exc):
                continue  # `@` does not accept this pair: outside the property
            dis.append({"kind": "combine", "problems": [("raised", repr(exc)[:200])], "input": describe(items)})
            continue
        except Exception as exc:
            if "Unknown parameter" in str(exc):
                continue  # rejected combination (parameters of a scalar operator inside a matrix one)
            dis.append({"kind": "combine", "problems": [("raised", repr(exc)[:200])], "input": describe(items)})
            continue
        dist["scalar" if items[0]["kind"] in ("E", "P", "R") else "matrix"] += 1
        dist["with_decl"] += int(any(it["decl"] for it in items))
        for name, comb in (("left", left), ("right", right)):
            checked += 1
            problems = []
            try:
                with warnings.catch_warnings():
                    warnings.simplefilter("ignore")
                    res = comb(sm0)
                problems += [(name,) + p for p in cmp_sm(res, seq)]
                shp = epg.getshape(ops)
                if tuple(comb.shape) != tuple(shp):
                    problems.append((name, "shape", tuple(comb.shape), tuple(shp)))
                dur = sum(np.asarray(op.duration) for op in ops)
                if not np.allclose(comb.duration, dur):
                    problems.append((name, "duration", comb.duration, dur))
            except Exception as exc:
                problems.append((name, "raised", repr(exc)[:200]))
            if problems:
                dis.append({"kind": "combine", "problems": problems, "input": describe(items)})
                break
    return checked, dis, dist


def describe(items):
    return [{"kind": it["kind"], "args": [a.tolist() if isinstance(a, np.ndarray) else a for a in it["args"]],
             "decl": it["decl"], "dur": it["dur"]} for it in items]


def nest(r, ops, epg):
    """random nesting with lists and `*` groups of the same flat list"""
    if len(ops) <= 1:
        return list(ops)
    out, i = [], 0
    while i < len(ops):
        j = min(len(ops), i + int(r.integers(1, 4)))
        chunk = ops[i:j]
        c = r.random()
        if c < 0.3 and len(chunk) > 1:
            out.append(nest(r, chunk, epg))
        elif c < 0.6 and len(chunk) > 1:
            m = chunk[0] * chunk[1]
            for o in chunk[2:]:
                m = m * o
            out.append(m)
        elif c < 0.7 and len(chunk) > 2:
            out.append(chunk[0] * (chunk[1] * chunk[2]))
            out += chunk[3:]
        else:
            out += chunk
        i = j
    return out


def compare_nesting(r, epg, ncase):
    import wide

    dis, checked = [], 0
    for _ in range(ncase):
        batch = [None, (2,), (2, 3)][r.integers(3)] if r.random() < 0.4 else None
        case = wide.gen_wide(r, int(r.integers(2, 12)), mode="1d", batch=batch, lossless=True,
                             allow=["T", "E", "S", "Phi", "P", "SPOILER", "WAIT"])
        try:
            with warnings.catch_warnings():
                warnings.simplefilter("ignore")
                flat = []
                for o in case["program"]:
                    kw = {}
                    op = wide.build_op(o, epg)
                    flat += [op, epg.ADC]
                nested = nest(r, [wide.build_op(o, epg) if not isinstance(o, str) else o for o in case["program"]], epg)
                # same operator objects in both forms, probes interleaved afterwards
                flat_ops = [wide.build_op(o, epg) for o in case["program"]]
                a = np.asarray(epg.simulate(flat_ops + [epg.ADC, epg.Adc("Z0")]))
                b = np.asarray(epg.simulate(nest(r, flat_ops, epg) + [[epg.ADC], epg.Adc("Z0")]))
                multi = flat_ops[0]
                for o in flat_ops[1:]:
                    multi = multi * o
                attrs_ok = True
                if len(flat_ops) > 2:
                    # right-nested / balanced groups: (a*b)*(c*d), a*(b*c)
                    cut = int(r.integers(1, len(flat_ops) - 1))
                    def grp(lst):
                        if len(lst) == 1:
                            return lst[0]
                        g = lst[0] * lst[1]
                        for o in lst[2:]:
                            g = g * o
                        return g
                    g2 = grp(flat_ops[:cut]) * grp(flat_ops[cut:])
                    dur = sum(np.asarray(o.duration) for o in flat_ops)
                    ok_shape = tuple(g2.shape) == tuple(epg.getshape(flat_ops))
                    ok_dur = np.allclose(g2.duration, dur) and g2.nshift == sum(o.nshift for o in flat_ops)
                    sm_a = epg.StateMatrix([0, 0, 1], shape=epg.getshape(flat_ops))
                    res_g = g2(sm_a)
                    res_s = sm_a
                    for o in flat_ops:
                        res_s = o(res_s)
                    ok_apply = np.asarray(res_g.states).shape == np.asarray(res_s.states).shape and \
                        np.allclose(np.asarray(res_g.states), np.asarray(res_s.states), atol=1e-12)
                    attrs_ok = ok_shape and ok_dur and ok_apply
                if attrs_ok and len(flat_ops) > 1:
                    dur = sum(np.asarray(o.duration) for o in flat_ops)
                    nsh = sum(o.nshift for o in flat_ops)
                    attrs_ok = np.allclose(multi.duration, dur) and multi.nshift == nsh and \
                        tuple(multi.shape) == tuple(epg.getshape(flat_ops))
        except Exception as exc:
            dis.append({"kind": "nesting", "problems": [("raised", repr(exc)[:200])], "input": case})
            continue
        checked += 1
        if a.shape != b.shape or not np.array_equal(a, b):
            dis.append({"kind": "nesting", "problems": [("nested/grouped result differs from flat", a.shape, b.shape)], "input": case})
        elif not attrs_ok:
            dis.append({"kind": "nesting", "problems": [("multi-operator duration / nshift / shape",)], "input": case})
    return checked, dis


def probe_F7(epg):
    """`@` with alias / coefficient declarations applies the coefficients twice"""
    out = []
    sm0 = epg.StateMatrix([0.3 + 0.1j, 0.3 - 0.1j, 0.7])
    for name, d in (("alias", {"x": "alpha"}), ("coefficient", {"alpha": {"alpha": 2.0}})):
        a, b = epg.T(30, 20, order1=d), epg.T(50, -10, order1=d)
        seq = b(a(sm0))
        comb = (a @ b)(sm0)
        pr = cmp_sm(comb, seq)
        if pr:
            out.append({"kind": "F7-probe", "probe": name, "problems": pr,
                        "input": {"ops": ["T(30,20)", "T(50,-10)"], "order1": d}})
    return out


def compare_arraytuple(r, ncase):
    """`common.ArrayTuple` (+, +=, *, *=, scalar forms, unary minus; parts given as python ints, 0-d / 1-d integer arrays or
    None; equal and different lengths) vs the Lean definitions `ATuple.add / mul / addScalar / mulScalar / neg`, about which
    `Props/C10Tuple.lean` proves that, with None read as zero, sums and products are exact and nothing accumulated is dropped"""
    from epgpy import common

    def part(v, form):
        if v is None:
            return None
        return int(v) if form == 0 else (np.array(int(v)) if form == 1 else np.full(2, int(v)))

    def tok(vals):
        return "-" if len(vals) == 0 else ",".join("N" if v is None else str(int(v)) for v in vals)

    def read(t):
        out = []
        for e in t:
            if e is None:
                out.append(None)
            else:
                a = np.asarray(e)
                if a.ndim and not np.all(a == a.flat[0]):
                    return "mixed"
                out.append(int(a.flat[0]) if a.ndim else int(a))
        return "tup " + tok(out)

    lines, expect, inputs = [], [], []
    for _ in range(ncase):
        n = int(r.integers(0, 4))
        m = n if r.random() < 0.85 else int(r.integers(0, 4))
        xs = [None if r.random() < 0.35 else int(r.integers(-5, 6)) for _ in range(n)]
        ys = [None if r.random() < 0.35 else int(r.integers(-5, 6)) for _ in range(m)]
        form = int(r.integers(3))
        op = ["add", "iadd", "mul", "imul", "adds", "muls", "neg"][r.integers(7)]
        c = int(r.integers(-4, 5))
        x = common.ArrayTuple(part(v, form) for v in xs)
        y = common.ArrayTuple(part(v, form) for v in ys)
        try:
            if op == "add":
                z = x + y
            elif op == "iadd":
                z = x; z += y
            elif op == "mul":
                z = x * y
            elif op == "imul":
                z = x; z *= y
            elif op == "adds":
                z = x + c
            elif op == "muls":
                z = x * c
            else:
                z = -x
            exp = read(z)
        except ValueError:
            exp = "err"
        mop = {"iadd": "add", "imul": "mul"}.get(op, op)
        lines.append(f"atup {mop} {tok(xs)} {c if op in ('adds', 'muls') else tok(ys) if op != 'neg' else 0}")
        expect.append(exp); inputs.append({"op": op, "x": xs, "y": ys, "c": c, "form": ["int", "0-d array", "1-d array"][form]})
    out = lib.run_driver(lines)
    dis = []
    for exp, got, inp in zip(expect, out, inputs):
        if exp != got.strip():
            dis.append({"kind": "c10-arraytuple", "problems": [("epgpy ArrayTuple vs the Lean model", exp, got)], "input": inp})
    if len(out) != len(expect):
        dis.append({"kind": "c10-arraytuple", "problems": [("driver lines", len(out), len(expect))], "input": {}})
    return len(expect), dis
