"""Correspondence `guard` (C20): the Lean guard model (Model/Guards, run by the driver) vs epgpy on the same
inputs: both must agree on raise / accept for every generated member of every class (search/c20.py generates
the inputs by class, so a disagreement with the *expected* verdict is reported as well)."""
import numpy as np

import lib
from lib import f2b
import c20

PARAMS = {"T": ["alpha", "phi"], "E": ["tau", "T1", "T2", "g"], "P": ["tau", "g"], "R": ["rT", "rL", "r0"]}


def sh(shape):
    shape = tuple(int(x) for x in shape)
    return "x".join(str(x) for x in shape) if shape else "-"


def fl(a):
    return " ".join(f2b(float(x)) for x in np.asarray(a, dtype=float).reshape(-1))


def cfl(a):
    return " ".join(f"{f2b(float(np.real(x)))} {f2b(float(np.imag(x)))}" for x in np.asarray(a, dtype=complex).reshape(-1))


def lines_for(d):
    """guard lines; the model verdict is 'raise' iff any line answers raise"""
    from epgpy import utils

    cls = d["cls"]
    if cls == "duration":
        return [f"guard neg {fl(d['value'])}"]
    if cls == "time":
        tau = np.asarray(d["value"], dtype=float)
        if d["kind"] in ("E", "P", "X", "D", "E_T1", "E_T2", "X_T2"):  # a decay / relaxation time: only the sign is checked
            return [f"guard neg {fl(tau)}"]
        k = utils.get_wavenumber(tau, 5.0) if d["kind"] == "G" else tau
        return [f"guard neg {fl(tau)}", f"guard zeroshift {fl(k)}"]
    if cls in ("zero_shift", "shift_ncomp"):
        k = d["k"]
        pyint = isinstance(k, int)
        last = 1 if pyint else np.atleast_2d(k).shape[-1]
        return [f"guard zeroshift {fl(k)}", f"guard ncomp {1 if pyint else 0} {last}"]
    if cls == "float_no_grid":
        smg = f2b(d["smg"]) if d["smg"] is not None else "none"
        opg = f2b(d["opg"]) if d["opg"] is not None else "none"
        return [f"guard grid {smg} {opg}"]
    if cls == "states":
        st = np.asarray(d["states"])
        lines = [f"guard stshape {sh(st.shape)}"]
        ok_shape = (st.ndim == 1 and st.size == 3) or (st.ndim >= 2 and st.shape[-1] == 3 and st.shape[-2] % 2 == 1)
        if ok_shape:
            st2 = st.reshape((-1,) + ((1, 3) if st.ndim == 1 else st.shape[-2:]))
            for b in st2:
                lines.append(f"guard stsym {cfl(b)}")
        return lines
    if cls == "scalar_coeff":
        arr = np.asarray(d["arr"])
        lines = [f"guard scshape {sh(arr.shape)}"]
        if arr.shape and arr.shape[-1] == 3:
            lines.append(f"guard sccoef {cfl(arr)}")
        return lines
    if cls == "matrix_coeff":
        m = np.asarray(d["mat"])
        lines = [f"guard mshape {sh(m.shape)}"]
        if m.ndim >= 2 and m.shape[-2:] == (3, 3):
            for b in m.reshape((-1, 3, 3)):
                lines.append(f"guard mcoef {cfl(b)}")
        return lines
    if cls == "shapes":
        return [f"guard bcast2 {sh(d['smshape'])} {sh(d['opshape'])}"]
    if cls == "kinetic":
        K = np.asarray(d["K"], dtype=float)
        if d["how"] == "negrate":
            return [f"guard neg {fl(-abs(float(K.flat[1])) - 0.1)}"]
        lines = [f"guard kinetic {sh(K.shape)} {fl(K)}"]
        if K.ndim == 2 and K.shape[0] == K.shape[1]:
            lines.append(f"guard conserve {K.shape[0]} {fl(K)} {fl(d['dens'])}")
        return lines
    if cls == "diffusion":
        D, k = d["D"], d["k"]
        return [f"guard diffusion {sh(np.shape(D))} {sh(np.shape(k)) if k is not None else '-'}"]
    if cls == "diff_param":
        params = PARAMS[d["kind"]]
        p, q, how, form = d["p"], d["q"], d["how"], d["form"]
        o1, o2 = [], []
        if how == "valid" and form == "order2_true":
            import epgpy
            P2 = sorted({tuple(sorted(map(str, pair))) for pair in getattr(epgpy, d["kind"]).PARAMETERS_ORDER2})
            s1 = " ".join(f"{v}:{','.join(ps)}" for v, ps in d["o1"])
            s2 = " ".join(f"{a},{b}" for a, b in P2)
            return [f"guard decltrue {' '.join(params)} ; {s2} ; {s1}", f"guard expand {s2} ; {s1}"]
        if how == "valid":
            if form == "name":
                o1 = [(p, [p])]
            elif form == "dict":
                o1 = [("x", [p])]
            elif form == "order2_pair":
                o1 = [(x, [x]) for x in params]
                o2 = [((p, q), [])]
            else:
                o1 = [("x", [p]), ("y", [q])]
                o2 = [(("x", "y"), [])]
        elif how == "unknown_name":
            o1 = [("bogus", ["bogus"])]
        elif how == "unknown_in_dict":
            o1 = [("x", [p, "bogus"])]
        elif how == "order2_no_order1":
            o2 = [((p, p), [])]
        elif how == "order2_unknown_param":
            o1 = [("x", [p])]; o2 = [(("x", "x"), ["bogus"])]
        elif how == "pair_no_match":
            o1 = [("x", [p])]; o2 = [(("u", "v"), [])]
        else:
            o1 = [("x", [p])]; o2 = [(("x", "u"), [p])]
        s1 = " ".join(f"{v}:{','.join(ps) or '-'}" for v, ps in o1)
        s2 = " ".join(f"{a},{b}:{','.join(ps) or '-'}" for (a, b), ps in o2)
        return [f"guard decl {' '.join(params)} ; {s1} ; {s2}"]
    if cls == "sequence":
        tree = {"valid": "op0 [ op0 [ op1 ] ]", "no_probe": "op0 op0", "non_operator": "op0 other op1",
                "nested_bad": "op0 [ op0 [ other ] ] op1", "empty": ""}[d["how"]]
        return [f"guard seq {tree}"]
    if cls == "seq_vars":
        how = d["how"]
        if how == "bad_item":
            return ["guard seq op0 op0 op1 other"]
        given = "a" if how == "missing" else "a T2"
        o1 = {"valid": "T2", "missing": "", "unknown_order1": "bogus", "unknown_order2": ""}[how]
        o2 = "T2,T2 T2,bogus bogus,bogus" if how == "unknown_order2" else ""
        return [f"guard seqvars a T2 ; {given} ; {o1} ; {o2}"]
    if cls == "pulse":
        return [f"guard pulse {fl(np.abs(d['values']))}"]
    if cls == "boundary":
        return [f"guard neg {fl([0.0])}"]
    raise ValueError(cls)


def compare(r, epg, ncase):
    descs, lines, counts = [], [], []
    for i in range(ncase):
        cls = c20.CLASSES[i % len(c20.CLASSES)]
        d = c20.gen(r, cls)
        ls = lines_for(d)
        descs.append(d); lines += ls; counts.append(len(ls))
    out = lib.run_driver(lines)
    pos, dis, hits = 0, [], {}
    for d, n in zip(descs, counts):
        answers = out[pos:pos + n]; pos += n
        pairs_ans = [a.strip() for a in answers if a.strip().startswith("pairs")]
        answers = [a for a in answers if not a.strip().startswith("pairs")]
        model = "raise" if any(a.strip() == "raise" for a in answers) else "ok"
        if any(a.strip() not in ("raise", "ok") for a in answers):
            model = "bad-op"
        got, exc = c20.run_real(d, epg)
        if pairs_ans and got == "ok":
            # order2=True: the pairs the operator differentiates twice are those of the model's expansion
            mp = sorted({tuple(sorted(t.split(","))) for t in pairs_ans[0].split()[1:]})
            rp = [tuple(x) for x in d.get("real_pairs", [])]
            if mp != rp:
                dis.append({"kind": "c20-guard", "problems": [(f"order2=True: model pairs {mp}, operator pairs {rp}", None)], "input": d})
        key = f"{d['cls']}:{d.get('how', d['expect'])}:{got}"
        hits[key] = hits.get(key, 0) + 1
        probs = []
        if got != d["expect"]:
            probs.append((f"class {d['cls']} ({d.get('how', '')}): member expected to {d['expect']}, epgpy gave {got}", exc))
        if model != got:
            probs.append((f"guard model says {model}, epgpy gave {got}", exc, answers))
        if probs:
            dis.append({"kind": "c20-guard", "problems": probs, "input": d})
    return len(descs), dis, hits
