"""C06: Lean exchange model (`Model/Exchange`, scaled Taylor exponential) vs epgpy's X operator (eigendecomposition)
inside RF / shift / relaxation sequences; searches on the real code: independent numerical integration of the
Bloch-McConnell ODE, semigroup in tau, zero exchange = independent relaxation, conservation, fixed point, position of
the exchange axis among other axes, batched tau."""
import warnings

import numpy as np

import lib
import prog
from lib import f2b


def gen_kinetic(r, n, dens):
    s = r.uniform(0.0, 0.3, size=(n, n))
    s = np.triu(s, 1); s = s + s.T
    K = -s / dens[None, :]
    K[np.arange(n), np.arange(n)] = (s / dens[None, :]).sum(axis=0)
    return K


def gen_case(r, maxlen=10):
    n = int(r.integers(2, 5))
    equal = r.random() < 0.3
    dens = np.ones(n) if equal else r.uniform(0.3, 2.0, size=n)
    ops = []
    for _ in range(int(r.integers(2, maxlen + 1))):
        u = r.random()
        if u < 0.3:
            ops.append({"k": "T", "alpha": prog.pick(r, 10, 170), "phi": prog.pick(r, -180, 180)})
        elif u < 0.5:
            ops.append({"k": "S", "m": int(r.integers(1, 3)) * (1 if r.random() < 0.6 else -1)})
        elif u < 0.65:
            ops.append({"k": "E", "tau": prog.pick(r, 1, 20), "T1": r.uniform(200, 2000, size=n).tolist(),
                        "T2": r.uniform(10, 200, size=n).tolist(), "g": r.uniform(-0.05, 0.05, size=n).tolist()})
        else:
            o = {"k": "X", "tau": prog.pick(r, 0.5, 30, (0.0,), 0.05), "K": gen_kinetic(r, n, dens).tolist(), "T1": None, "T2": None, "g": None}
            if equal and n == 2 and r.random() < 0.4:
                o["K"] = float(r.uniform(0.01, 0.3))
            if r.random() < 0.6:
                o["T1"] = r.uniform(200, 2000, size=n).tolist()
                o["T2"] = r.uniform(10, 200, size=n).tolist()
            if r.random() < 0.4:
                o["g"] = r.uniform(-0.05, 0.05, size=n).tolist()
            ops.append(o)
    if not any(o["k"] == "X" for o in ops):
        ops.append({"k": "X", "tau": 5.0, "K": gen_kinetic(r, n, dens).tolist(), "T1": None, "T2": None, "g": None})
    return {"n": n, "dens": dens.tolist(), "ops": ops}


def build_op(o, epg, n):
    if o["k"] == "T":
        return epg.T(o["alpha"], o["phi"])
    if o["k"] == "S":
        return epg.S(o["m"])
    if o["k"] == "E":
        return epg.E(o["tau"], np.asarray(o["T1"]), np.asarray(o["T2"]), np.asarray(o["g"]))
    kw = {k: np.asarray(o[k]) for k in ("T1", "T2", "g") if o[k] is not None}
    K = o["K"] if np.isscalar(o["K"]) else np.asarray(o["K"])
    return epg.X(o["tau"], K, **kw)


def kmat(o, n):
    if np.isscalar(o["K"]):
        k = o["K"]
        return k * (np.eye(n) + (np.eye(n) - 1) / (n - 1))
    return np.asarray(o["K"], dtype=float)


def lines_for(case):
    n = case["n"]
    lines = ["case", "xinit " + " ".join(f2b(d) for d in case["dens"])]
    for o in case["ops"]:
        if o["k"] == "T":
            lines.append(f"xop T {f2b(o['alpha'])} {f2b(o['phi'])}")
        elif o["k"] == "S":
            lines.append(f"xop S {o['m']} none")
        elif o["k"] == "E":
            for i in range(n):
                lines.append(f"xopc {i} E {f2b(o['tau'])} {f2b(o['T1'][i])} {f2b(o['T2'][i])} {f2b(o['g'][i])}")
        else:
            K = kmat(o, n)
            rT1 = [0.0] * n if o["T1"] is None else [1.0 / x for x in o["T1"]]
            rT2 = [0.0] * n if o["T2"] is None else [1.0 / x for x in o["T2"]]
            g = [0.0] * n if o["g"] is None else list(o["g"])
            vals = list(K.reshape(-1)) + rT1 + rT2 + g
            lines.append(f"xx {f2b(o['tau'])} {n} " + " ".join(f2b(float(x)) for x in vals))
    lines.append("xdump")
    return lines


def compare(cases, epg, tol=1e-8):
    lines, expect = [], []
    for case in cases:
        try:
            with warnings.catch_warnings():
                warnings.simplefilter("ignore")
                sm = epg.StateMatrix(density=np.asarray(case["dens"]))
                for o in case["ops"]:
                    sm = build_op(o, epg, case["n"])(sm, inplace=True)
                expect.append((sm.nstate, np.asarray(sm.states).copy()))
        except Exception as exc:
            expect.append(("error", repr(exc)))
            continue
        lines += lines_for(case)
    out = lib.run_driver(lines) if lines else []
    pos, dis, checked = 0, [], 0
    for case, ex in zip(cases, expect):
        if isinstance(ex[0], str):
            dis.append({"kind": "exc-epgpy-raised", "problems": [ex[1]], "input": case})
            continue
        nst, states = ex
        checked += 1
        probs = []
        for i in range(case["n"]):
            _, mn, mst = lib.parse_states(out[pos]); pos += 1
            if probs:
                continue
            if mn != nst:
                probs.append(("number of states", i, nst, mn))
                continue
            ok, err = lib.close(states[i], mst, tol=tol)
            if not ok:
                probs.append(("states of a compartment differ (compartment, max abs diff, epgpy, model)", i, err,
                              np.asarray(states[i]).tolist(), np.asarray(mst).tolist()))
        if probs:
            dis.append({"kind": "model-vs-epgpy exchange", "problems": probs, "input": case})
    return checked, dis


# ---------------------------------------------------------------------------------------------
def expm_ref(A):
    """scaling and squaring with a Taylor series (independent of the code's eigendecomposition)"""
    A = np.asarray(A, dtype=complex)
    nrm = max(1.0, np.linalg.norm(A, 1))
    s = int(np.ceil(np.log2(nrm))) + 6
    B = A / 2 ** s
    E = np.eye(A.shape[0], dtype=complex); term = np.eye(A.shape[0], dtype=complex)
    for k in range(1, 25):
        term = term @ B / k
        E = E + term
    for _ in range(s):
        E = E @ E
    return E


def search_physics(r, epg, ncase):
    dis, checked = [], 0
    dist = {"axis0_with_batch": 0, "axis1": 0, "batched_tau": 0, "infinite_T": 0, "scalar_rate": 0}
    for _ in range(ncase):
        n = int(r.integers(2, 5))
        dens = r.uniform(0.3, 2.0, size=n)
        K = gen_kinetic(r, n, dens)
        tau = float(r.uniform(0.5, 40))
        T1 = r.uniform(200, 2000, size=n); T2 = r.uniform(10, 200, size=n); g = r.uniform(-0.05, 0.05, size=n)
        if r.random() < 0.3:
            T1[int(r.integers(n))] = np.inf; dist["infinite_T"] += 1
        relax = r.random() < 0.7
        kw = {"T1": T1, "T2": T2, "g": g} if relax else {}
        layout = ["plain", "axis0_batch", "axis1"][r.integers(3)]
        B = int(r.integers(2, 4))
        alpha = r.uniform(20, 150, size=B)
        inp = {"n": n, "dens": dens.tolist(), "K": K.tolist(), "tau": tau, "relax": relax, "layout": layout,
               "T1": T1.tolist(), "T2": T2.tolist(), "g": g.tolist()}
        try:
            with warnings.catch_warnings():
                warnings.simplefilter("ignore")
                if layout == "plain":
                    sm0 = epg.StateMatrix(density=dens)
                    sm0 = epg.S(1)(epg.T(float(alpha[0]), 20.0)(sm0))
                    sm0 = epg.T(35.0, -40.0)(sm0)
                    X = epg.X(tau, K, **kw)
                    ax = 0
                elif layout == "axis0_batch":
                    dist["axis0_with_batch"] += 1
                    sm0 = epg.StateMatrix(density=dens[:, None] * np.ones((1, B)))
                    sm0 = epg.S(1)(epg.T(alpha[None, :], 20.0)(sm0))
                    sm0 = epg.T(35.0, -40.0)(sm0)
                    X = epg.X(tau, K, **{k: v[:, None] for k, v in kw.items()}) if relax else epg.X(tau, K)
                    ax = 0
                else:
                    dist["axis1"] += 1
                    sm0 = epg.StateMatrix(density=dens[None, :] * np.ones((B, 1)))
                    sm0 = epg.S(1)(epg.T(alpha[:, None], 20.0)(sm0))
                    sm0 = epg.T(35.0, -40.0)(sm0)
                    X = epg.X(tau, K[None], axis=1, **{k: v[None, :] for k, v in kw.items()})
                    ax = 1
                st0 = np.asarray(sm0.states).copy()
                eq = np.asarray(sm0.equilibrium).copy()
                sm1 = X(sm0)
                st1 = np.asarray(sm1.states)
                # semigroup
                t1 = tau * float(r.uniform(0.1, 0.9))
                mk = lambda t: (epg.X(t, K if ax == 0 else K[None], axis=ax, **({k: (v[:, None] if layout == "axis0_batch" else (v[None, :] if ax == 1 else v)) for k, v in kw.items()})))
                st12 = np.asarray(mk(tau - t1)(mk(t1)(sm0)).states)
                # equilibrium fixed point
                sme = epg.StateMatrix(density=np.asarray(sm0.density))
                ste = np.asarray(X(sme).states); ste0 = np.asarray(sme.states)
        except Exception as exc:
            dis.append({"kind": "c06-physics", "problems": [("raised", repr(exc))], "input": inp})
            continue
        checked += 1
        probs = []
        # reference: expm of the generators acting along the compartment axis
        rT1 = 1 / T1 if relax else np.zeros(n)
        rT2 = 1 / T2 if relax else np.zeros(n)
        gg = g if relax else np.zeros(n)
        MT = expm_ref(tau * (-K + np.diag(-rT2 + 2j * np.pi * gg)))
        ML = expm_ref(tau * (-K + np.diag(-rT1)))
        d = st0 - eq
        dmov = np.moveaxis(d, ax, -1)  # (..., nstate, 3, n)
        ref = np.empty_like(dmov)
        ref[..., 0, :] = dmov[..., 0, :] @ MT.T
        ref[..., 1, :] = dmov[..., 1, :] @ MT.conj().T
        ref[..., 2, :] = dmov[..., 2, :] @ ML.T
        ref = np.moveaxis(ref, -1, ax) + eq
        if ref.shape != st1.shape or np.max(np.abs(ref - st1)) > 1e-8:
            probs.append(("X differs from exp(tau(-K+R)) (M - Meq) + Meq computed by scaling-and-squaring",
                          float(np.max(np.abs(ref - st1))) if ref.shape == st1.shape else "shape"))
        if np.max(np.abs(st12 - st1)) > 1e-8:
            probs.append(("tau1 then tau2 differs from tau1+tau2", float(np.max(np.abs(st12 - st1)))))
        if np.max(np.abs(ste - ste0)) > 1e-10:
            probs.append(("the equilibrium is not a fixed point", float(np.max(np.abs(ste - ste0)))))
        if not relax:
            tot0, tot1 = st0.sum(axis=ax), st1.sum(axis=ax)
            if np.max(np.abs(tot0 - tot1)) > 1e-9:
                probs.append(("total magnetisation not conserved without relaxation", float(np.max(np.abs(tot0 - tot1)))))
        if probs:
            dis.append({"kind": "c06-physics", "problems": probs, "input": inp})
    return checked, dis, dist


def search_limits(r, epg, ncase):
    """zero exchange = per-compartment relaxation; scalar rate = its kinetic matrix; batched tau = each tau alone"""
    dis, checked = [], 0
    for _ in range(ncase):
        n = int(r.integers(2, 4))
        T1 = r.uniform(200, 2000, size=n); T2 = r.uniform(10, 200, size=n); g = r.uniform(-0.05, 0.05, size=n)
        tau = float(r.uniform(1, 30))
        try:
            with warnings.catch_warnings():
                warnings.simplefilter("ignore")
                sm0 = epg.T(35.0, -40.0)(epg.S(1)(epg.T(60.0, 20.0)(epg.StateMatrix(density=np.ones(n)))))
                a = np.asarray(epg.X(tau, np.zeros((n, n)), T1=T1, T2=T2, g=g)(sm0).states)
                b = np.asarray(epg.E(tau, T1, T2, g)(sm0).states)
                k = float(r.uniform(0.01, 0.3))
                sm2 = epg.T(35.0, -40.0)(epg.S(1)(epg.T(60.0, 20.0)(epg.StateMatrix(density=np.ones(2)))))
                c = np.asarray(epg.X(tau, k)(sm2).states)
                d = np.asarray(epg.X(tau, k * np.array([[1.0, -1.0], [-1.0, 1.0]]))(sm2).states)
                taus = r.uniform(1, 30, size=3)
                sm3 = epg.StateMatrix(density=np.ones((2, 3)))
                sm3 = epg.T(35.0, -40.0)(epg.S(1)(epg.T(60.0, 20.0)(sm3)))
                e = np.asarray(epg.X(taus[None, :], k)(sm3).states)
                f = np.stack([np.asarray(epg.X(float(t), k)(sm2).states) for t in taus], axis=1)
                # exactly zero generators with a batch: identity
                z1 = np.asarray(epg.X(taus[None, :], np.zeros((2, 2)))(sm3).states)
                z2 = np.asarray(epg.X(np.zeros((1, 3)), k)(sm3).states)
                z0 = np.asarray(sm3.states)
                # rejection of a kinetic matrix that does not conserve the equilibrium of the state it is applied to,
                # also when the same operator object has been applied to a compatible state before
                dens = r.uniform(0.3, 2.0, size=n)
                Kd = gen_kinetic(r, n, dens)
                Xd = epg.X(tau, Kd)
                reused = bool(r.random() < 0.6)
                if reused:
                    Xd(epg.StateMatrix(density=dens))
                bad = dens.copy(); bad[0] = bad[0] * float(r.uniform(1.5, 3.0))
                try:
                    Xd(epg.StateMatrix(density=bad))
                    rejected = False
                except RuntimeError:
                    rejected = True
        except Exception as exc:
            dis.append({"kind": "c06-limits", "problems": [("raised", repr(exc))], "input": {"n": n, "tau": tau}})
            continue
        checked += 1
        probs = []
        if a.shape != b.shape or np.max(np.abs(a - b)) > 1e-9:
            probs.append(("zero exchange differs from independent relaxation E per compartment", float(np.max(np.abs(a - b)))))
        if np.max(np.abs(c - d)) > 1e-10:
            probs.append(("scalar rate differs from its 2-compartment kinetic matrix", float(np.max(np.abs(c - d)))))
        if e.shape != f.shape or np.max(np.abs(e - f)) > 1e-9:
            probs.append(("batched tau differs from each tau alone", e.shape, f.shape))
        if z1.shape != z0.shape or np.max(np.abs(z1 - z0)) > 1e-12 or np.max(np.abs(z2 - z0)) > 1e-12:
            probs.append(("zero exchange without relaxation (or tau = 0) with a batched tau is not the identity", z1.shape, z0.shape))
        if not rejected:
            probs.append(("kinetic matrix not conserving the state's equilibrium was accepted (operator object reused: %s)" % reused,
                          dens.tolist(), bad.tolist()))
        if probs:
            dis.append({"kind": "c06-limits", "problems": probs, "input": {"n": n, "tau": tau, "T1": T1.tolist(), "T2": T2.tolist(), "g": g.tolist()}})
    return checked, dis


def search_grid(r, epg, ncase):
    """compartments on axis 0 and TWO further operator axes (flip angles on axis 1, mixing times on axis 2, either of them
    possibly a singleton): every (i, j) entry of X against exp(tau_j (-K + R)) applied to the states of entry i"""
    dis, checked = [], 0
    for _ in range(ncase):
        n = int(r.integers(2, 4))
        dens = r.uniform(0.3, 2.0, size=n)
        K = gen_kinetic(r, n, dens)
        B1 = int(r.integers(1, 4)); B2 = int(r.integers(2, 4))
        alpha = r.uniform(20, 150, size=B1)
        taus = r.uniform(0.5, 30, size=B2)
        same_T = bool(r.random() < 0.3)
        T1 = r.uniform(200, 2000, size=n); T2 = T1.copy() if same_T else r.uniform(10, 200, size=n); g = r.uniform(-0.05, 0.05, size=n)
        form = ["all", "g_only", "none"][r.integers(3)]
        kw = {"all": {"T1": T1[:, None, None], "T2": T2[:, None, None], "g": g[:, None, None]},
              "g_only": {"g": g[:, None, None]}, "none": {}}[form]
        inp = {"n": n, "dens": dens.tolist(), "K": K.tolist(), "taus": taus.tolist(), "alpha": alpha.tolist(), "form": form,
               "T1": T1.tolist(), "T2": T2.tolist(), "g": g.tolist()}
        try:
            with warnings.catch_warnings():
                warnings.simplefilter("ignore")
                sm0 = epg.StateMatrix(density=dens[:, None, None] * np.ones((1, B1, 1)))
                sm0 = epg.S(1)(epg.T(alpha[None, :, None], 20.0)(sm0))
                sm0 = epg.T(35.0, -40.0)(sm0)
                X = epg.X(taus[None, None, :], K, **kw)
                st0 = np.asarray(sm0.states).copy()
                eq = np.asarray(sm0.equilibrium).copy()
                st1 = np.asarray(X(sm0).states)
        except Exception as exc:
            dis.append({"kind": "c06-grid", "problems": [("raised", repr(exc)[:300])], "input": inp})
            continue
        checked += 1
        probs = []
        rT1 = 1 / T1 if form == "all" else np.zeros(n)
        rT2 = 1 / T2 if form == "all" else np.zeros(n)
        gg = g if form in ("all", "g_only") else np.zeros(n)
        if st1.shape[:3] != (n, B1, B2):
            probs.append(("shape of the result", list(st1.shape), [n, B1, B2]))
        else:
            st0b = np.broadcast_to(st0, (n, B1, 1) + st0.shape[3:])
            eqb = np.broadcast_to(eq, (n, B1, 1) + eq.shape[3:])
            for j in range(B2):
                MT = expm_ref(taus[j] * (-K + np.diag(-rT2 + 2j * np.pi * gg)))
                ML = expm_ref(taus[j] * (-K + np.diag(-rT1)))
                d = np.moveaxis((st0b - eqb)[:, :, 0], 0, -1)       # (B1, nstate, 3, n)
                ref = np.empty_like(d)
                ref[..., 0, :] = d[..., 0, :] @ MT.T
                ref[..., 1, :] = d[..., 1, :] @ MT.conj().T
                ref[..., 2, :] = d[..., 2, :] @ ML.T
                ref = np.moveaxis(ref, -1, 0) + eqb[:, :, 0]
                err = float(np.max(np.abs(ref - st1[:, :, j])))
                if err > 1e-8:
                    probs.append((f"mixing time {j}: X differs from exp(tau(-K+R))(M-Meq)+Meq", err))
                    break
        if probs:
            dis.append({"kind": "c06-grid", "problems": probs, "input": inp})
    return checked, dis
