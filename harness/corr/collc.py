"""C16: ArrayCollection over call histories.  Shapes / axes / error classes are compared with the Lean
state machine `Model/Coll`; values, memory independence and the guarantees of the property text are
checked directly on the live objects (independent numpy reference for pad / crop / broadcast)."""
import itertools

import numpy as np

import lib

LAYOUTS = [["..."], ["...", "_"], ["@n", "..."], ["...", "@n"], ["#3", "..."], ["...", "@n", "#3"], ["@a", "...", "@n"],
           ["_", "..."], ["...", "@m", "_"]]
SHAPES = [(1,), (2,), (3,), (1, 2), (2, 3), (3, 2), (2, 1), (3, 1, 2), (2, 3, 3), (1, 1), (3, 3)]


def lay_py(l):
    out = []
    for x in l:
        if x == "...":
            out.append(Ellipsis)
        elif x == "_":
            out.append(None)
        elif x.startswith("#"):
            out.append(int(x[1:]))
        else:
            out.append(x[1:])
    return out


def shp(s):
    return "-" if len(s) == 0 else "x".join(str(int(i)) for i in s)


def gen_history(r, length):
    ops = [("cnew", int([0, -1][r.integers(2)]), None if r.random() < 0.6 else SHAPES[r.integers(4)])]
    names = ["a", "b", "c"]
    current = {}
    for _ in range(length):
        c = r.random()
        if c < 0.4:
            name = names[r.integers(3)]
            lay = None if r.random() < 0.25 else LAYOUTS[r.integers(len(LAYOUTS))]
            eff = lay if lay is not None else current.get(name, ["..."])
            cands = [s for s in SHAPES if len(s) >= len(eff) - 1]   # an array has at least the non-broadcast axes of its layout
            sh = cands[r.integers(len(cands))]
            current[name] = eff    # (kept even if the call is rejected: only used to stay inside valid inputs)
            ops.append(("cset", name, sh, lay, bool(r.random() < 0.35), True))
        elif c < 0.5:
            ops.append(("cpop", names[r.integers(3)]))
        elif c < 0.62:
            ops.append(("cresize", ["n", "a", "m"][r.integers(3)], int(r.integers(1, 6))))
        elif c < 0.72:
            ops.append(("cexpand", int(r.integers(1, 3))))
        elif c < 0.8:
            ops.append(("creduce", int(r.integers(1, 3))))
        elif c < 0.9:
            ops.append(("cbroadcast", SHAPES[r.integers(len(SHAPES))]))
        else:
            ops.append(("ccopy",))
    return ops


def line(op):
    k = op[0]
    if k == "cnew":
        return f"cnew {op[1]} {'none' if op[2] is None else shp(op[2])}"
    if k == "cset":
        return f"cset {op[1]} {shp(op[2])} {'none' if op[3] is None else ','.join(op[3])} {int(op[4])} {int(op[5])}"
    if k == "cpop":
        return f"cpop {op[1]}"
    if k == "cresize":
        return f"cresize {op[1]} {op[2]}"
    if k in ("cexpand", "creduce"):
        return f"{k} {op[1]}"
    if k == "cbroadcast":
        return f"cbroadcast {shp(op[1])}"
    return None


def reference_resize(arr, new, axis):
    """independent statement of `pad with zeros or crop symmetrically about the centre`"""
    old = arr.shape[axis]
    d = new - old
    if d == 0:
        return arr
    if d > 0:
        pad = [(0, 0)] * arr.ndim
        pad[axis] = (d // 2, d - d // 2)
        return np.pad(arr, pad)
    lo = (-d) // 2
    sl = [slice(None)] * arr.ndim
    sl[axis] = slice(lo, lo + new)
    return arr[tuple(sl)]


def snapshot(coll):
    axes = ",".join(f"{k}={v}" for k, v in sorted(coll.axes.items()))
    gets = []
    for n in coll:
        try:
            gets.append(f"{n}:{shp(coll.get(n).shape)}")
        except Exception as exc:
            gets.append(f"{n}:!{type(exc).__name__}")
    return f"coll shape={shp(coll.shape)} axes=[{axes}] gets=[{','.join(gets)}]"


def run_history(ops, AC):
    """returns (observed lines, direct problems)"""
    coll, out, problems = None, [], []
    counter = [100]
    frozen = []   # (the other side of an earlier copy(), its snapshot and array contents at that time)
    for op in ops:
        k = op[0]
        for other, snap, arrs in frozen:
            try:
                now = snapshot(other)
            except Exception as exc:
                now = f"!{type(exc).__name__}"
            if now != snap or any(n not in other._arrays or not np.array_equal(other._arrays[n], a) for n, a in arrs.items()):
                problems.append(f"a collection changed when the other side of its copy() was modified: {snap} -> {now}")
                frozen = []
                break
        try:
            if k == "cnew":
                coll = AC(op[2], expand_axis=op[1])
            elif k == "cset":
                counter[0] += 1
                arr = np.arange(int(np.prod(op[2]))).reshape(op[2]) + 1000 * counter[0]
                before = {n: (coll._arrays[n].copy(), coll._layouts[n]) for n in coll}
                coll.set(op[1], arr, layout=None if op[3] is None else lay_py(op[3]), resize=op[4], check=op[5])
                # the inserted array is a copy, other arrays are untouched
                if np.shares_memory(coll._arrays[op[1]], arr):
                    problems.append("set() stored the caller's array without copying")
                for n, (a, _) in before.items():
                    if n != op[1] and not np.array_equal(coll._arrays[n], a):
                        problems.append(f"set({op[1]}) changed array {n}")
            elif k == "cpop":
                coll.pop(op[1])
            elif k == "cresize":
                before = {n: (coll._arrays[n].copy(), coll._layouts[n]) for n in coll}
                coll.resize(op[1], op[2])
                for n, (a, lay) in before.items():
                    if op[1] in lay:
                        i = lay.index(op[1])
                        axis = a.ndim - len(lay) + i if lay.index(Ellipsis) < i else i
                        if not np.array_equal(coll._arrays[n], reference_resize(a, op[2], axis)):
                            problems.append(f"resize({op[1]}, {op[2]}): array {n} is not the centred pad/crop of its previous value")
                    elif not np.array_equal(coll._arrays[n], a):
                        problems.append(f"resize changed array {n} that has no axis {op[1]}")
            elif k == "cexpand":
                coll.expand(op[1])
            elif k == "creduce":
                coll.reduce(op[1])
            elif k == "cbroadcast":
                coll.broadcast(tuple(op[1]))
            elif k == "ccopy":
                cp = coll.copy()
                if snapshot(cp) != snapshot(coll):
                    problems.append("copy() differs from the original")
                for n in coll:
                    if np.shares_memory(cp._arrays[n], coll._arrays[n]):
                        problems.append(f"copy() shares memory of array {n}")
                # the history goes on with one side (alternating), the other side must stay as it is
                keep, go = (coll, cp) if len(frozen) % 2 == 0 else (cp, coll)
                frozen.append((keep, snapshot(keep), {n: keep._arrays[n].copy() for n in keep}))
                coll = go
                continue
            obs = snapshot(coll)
            # guarantees of the property text, on the live object
            for n in coll:
                try:
                    got = coll.get(n)
                except Exception as exc:
                    problems.append(f"stored array {n} cannot be returned: {type(exc).__name__}")
                    continue
                lay = coll._layouts[n]
                raw = coll._arrays[n]
                st = lay.index(Ellipsis)
                nafter = len(lay) - st - 1
                bpart = got.shape[st: got.ndim - nafter]
                if tuple(bpart) != tuple(coll.shape):
                    problems.append(f"array {n}: broadcast part {bpart} != collection shape {coll.shape}")
                if tuple(got.shape[:st]) != tuple(raw.shape[:st]) or (nafter and tuple(got.shape[-nafter:]) != tuple(raw.shape[-nafter:])):
                    problems.append(f"array {n}: own axes changed by get()")
            sizes = {}
            for n in coll:
                lay, raw = coll._layouts[n], coll._arrays[n]
                st = lay.index(Ellipsis)
                for i, ax in enumerate(lay):
                    if isinstance(ax, str):
                        idx = i if i < st else raw.ndim - len(lay) + i
                        sizes.setdefault(ax, set()).add(raw.shape[idx])
            for ax, ss in sizes.items():
                if len(ss) > 1:
                    problems.append(f"named axis {ax} has sizes {sorted(ss)}")
                if coll.axes.get(ax) not in ss:
                    problems.append(f"axes[{ax}] = {coll.axes.get(ax)} but arrays have {sorted(ss)}")
            for ax in coll.axes:
                if ax not in sizes:
                    problems.append(f"axes reports {ax} although no array has it")
        except ValueError:
            obs = "err ValueError"
        except IndexError:
            obs = "err IndexError"
        except KeyError:
            obs = "err KeyError"
        out.append(obs)
    return out, problems


def compare_coll(histories):
    from epgpy.statematrix import ArrayCollection as AC

    lines, expect = [], []
    for h in histories:
        obs, problems = run_history(h, AC)
        ls = [line(op) for op in h]
        expect.append((h, obs, problems, [l for l in ls if l is not None]))
        lines += [l for l in ls if l is not None]
    out = lib.run_driver(lines) if lines else []
    pos, dis, checked = 0, [], 0
    for h, obs, problems, ls in expect:
        model = out[pos: pos + len(ls)]
        pos += len(ls)
        checked += len(ls)
        if problems:
            dis.append({"kind": "coll-guarantee", "problems": [(p,) for p in sorted(set(problems))[:6]], "input": [list(map(jsonish, op)) for op in h]})
            continue
        for i, (o, m) in enumerate(zip(obs, model)):
            if o != m:
                dis.append({"kind": "coll-vs-model", "problems": [(f"step {i}: {ls[i]}", "epgpy: " + o, "model: " + m)],
                            "input": [list(map(jsonish, op)) for op in h[: i + 2]]})
                break
    return checked, dis


def jsonish(x):
    if isinstance(x, tuple):
        return list(x)
    return x


def exhaustive_histories(depth):
    """all histories of the given length over 3 small shapes, 4 layouts and the other calls"""
    shapes = [(1,), (2,), (2, 3)]
    layouts = [["..."], ["@n", "..."], ["...", "@n"], ["...", "_"]]
    alphabet = [("cset", "a", s, l, False, True) for s in shapes for l in layouts]
    alphabet += [("cset", "b", (3, 2), ["@n", "..."], True, True), ("cpop", "a"), ("cresize", "n", 4), ("cresize", "n", 1),
                 ("cexpand", 1), ("creduce", 1), ("cbroadcast", (2,)), ("cbroadcast", (2, 3)), ("ccopy",)]
    for ax in (0, -1):
        for seq in itertools.product(alphabet, repeat=depth):
            yield [("cnew", ax, None)] + list(seq)


def statematrix_wrappers(r, ncase):
    """StateMatrix.copy / resize / expand / reduce / stack / unstack inherit the container guarantees"""
    import epgpy as epg

    dis, checked = [], 0
    for _ in range(ncase):
        n = int(r.integers(0, 4))
        batch = [(), (2,), (2, 3), (1, 2)][r.integers(4)]
        st = r.normal(size=batch + (2 * n + 1, 3)) + 1j * r.normal(size=batch + (2 * n + 1, 3))
        st[..., 1] = st[..., ::-1, 0].conj()
        st[..., 2] = 0.5 * (st[..., 2] + st[..., ::-1, 2].conj())
        try:
            sm = epg.StateMatrix(st) if batch else epg.StateMatrix(st.reshape(2 * n + 1, 3))
            problems = []
            cp = sm.copy()
            if np.shares_memory(cp.states, sm.states) or np.shares_memory(cp.equilibrium, sm.equilibrium):
                problems.append("StateMatrix.copy shares memory with the original")
            n2 = int(r.integers(0, 5))
            ref = reference_resize(np.asarray(sm.states), 2 * n2 + 1, np.asarray(sm.states).ndim - 2)
            cp.resize(n2)
            if cp.nstate != n2 or not np.array_equal(np.asarray(cp.states), ref):
                problems.append(f"StateMatrix.resize({n2}) is not the centred pad/crop")
            if np.asarray(cp.equilibrium).shape != np.asarray(cp.states).shape:
                problems.append("equilibrium shape differs from states shape after resize")
            if not np.array_equal(np.asarray(sm.states).reshape(st.shape if batch else (1,) + st.shape[-2:]), st.reshape(np.asarray(sm.states).shape)):
                problems.append("resize of a copy changed the original")
            cp2 = sm.copy()
            nd = cp2.ndim
            cp2.expand(nd + 2)
            if cp2.ndim != nd + 2 or np.asarray(cp2.states).shape[:-2] != tuple(sm.shape) + (1, 1):
                problems.append(f"expand: shape {np.asarray(cp2.states).shape}")
            cp2.reduce(nd)
            if tuple(cp2.shape) != tuple(sm.shape) or not np.array_equal(np.asarray(cp2.states), np.asarray(sm.states)):
                problems.append("reduce after expand does not give the original back")
            others = [sm.copy() * (i + 2.0) for i in range(2)]
            stk = sm.stack(others)
            un = list(stk.unstack())
            if len(un) != 3 or not np.allclose(np.asarray(un[1].states), np.asarray(others[0].states)) \
                    or not np.allclose(np.asarray(un[0].states), np.asarray(sm.states)):
                problems.append("unstack(stack(...)) does not return the members")
        except Exception as exc:
            problems = [f"raised {exc!r}"]
        checked += 1
        if problems:
            dis.append({"kind": "statematrix-wrapper", "problems": [(p,) for p in problems], "input": {"nstate": n, "batch": list(batch)}})
    return checked, dis
