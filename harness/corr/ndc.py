"""Correspondence `nd` (C04): Lean table model `Model/ND` (run at K4 = (kx,ky,kz,t)) vs epgpy with n-D integer
shifts, gridded float shifts, gradient operators and time accumulation, back-ends mixed inside one sequence:
(1) content: wavenumber -> (F+, F-, Z) tables agree; (2) the property itself: the inverse Fourier sum of epgpy's
stored states at a random position / off-resonance equals the Bloch isochromat computed by the Lean specification
`blochRunN` (which never looks at phase states)."""
import warnings

import numpy as np

import lib
import prog
from lib import f2b

POINT = ["T", "T", "E", "Phi", "P", "R", "SPOILER"]


def gen_case(r, maxlen=14):
    mode = ["int_nd", "mixed", "float_grid", "time", "gradient"][r.integers(5)]
    dim = int(r.integers(1, 4))
    unit = float([0.25, 0.5, 1.0, 2.0][r.integers(4)])
    pd = prog.pick(r, 0.3, 2.0, (1.0,), 0.5)
    ops = []
    L = int(r.integers(2, maxlen + 1))
    for i in range(L):
        if r.random() < 0.55:
            ops.append({"k": "pt", "o": prog.gen_op(r, POINT[r.integers(len(POINT))])})
            continue
        v = r.integers(-2, 3, size=dim)
        if not v.any():
            v[int(r.integers(dim))] = 1
        if mode == "int_nd":
            ops.append({"k": "Sint", "v": v.tolist()})
        elif mode == "mixed":
            if r.random() < 0.5:
                ops.append({"k": "Spy", "v": int(v[0]) if v[0] else 1})
            else:
                ops.append({"k": "Sint", "v": v.tolist()})
        elif mode == "float_grid":
            ops.append({"k": "Sfloat", "v": v.tolist()})
        elif mode == "time":
            if r.random() < 0.5:
                ops.append({"k": "C", "m": int(r.integers(1, 4))})
            else:
                ops.append({"k": "Sfloat", "v": v.tolist()})
        else:
            ops.append({"k": "G", "m": int(r.integers(1, 4)), "sign": [1, -1][r.integers(2)] if dim == 1 else 1, "dir": int(r.integers(dim))})
    kvalue = [1.0, 1.0, 0.02, 3.0][r.integers(4)]
    if r.random() < 0.25:
        kvalue = [float(v) for v in r.choice([0.5, 1.0, 2.0], size=3)]
    tvalue = float([1.0, 1.0, 0.5, 2.0][r.integers(4)])
    case = {"mode": mode, "dim": dim, "unit": unit, "pd": pd, "ops": ops, "prune0": bool(r.random() < 0.5),
            "kvalue": kvalue, "tvalue": tvalue,
            "x": r.uniform(-1.5, 1.5, size=3).tolist(), "w": float(r.uniform(-0.5, 0.5)),
            "grad": float(r.uniform(2, 20)), "tau_unit": float([0.5, 1.0][r.integers(2)])}
    return case


def k_unit_G(case, epg):
    from epgpy import utils

    return float(utils.get_wavenumber(case["tau_unit"], case["grad"]))


def build(case, epg):
    """returns (operators, initial StateMatrix, per-axis wavenumber units, time unit)"""
    unit, dim = case["unit"], case["dim"]
    kw = {"prune": 0} if case["prune0"] else {}
    ops = []
    kv = np.asarray(case.get("kvalue", 1.0), dtype=float) * np.ones(3)
    tv = float(case.get("tvalue", 1.0))
    kun = kv.copy()  # physical wavenumber per index unit on each axis (coords are scaled by kvalue / tvalue)
    tun = tv
    if case["mode"] in ("float_grid", "time"):
        kun = unit * kv
        tun = unit * tv
    if case["mode"] == "gradient":
        kun = k_unit_G(case, epg) * kv
    grid = float(min(list(kun) + [tun])) / 4
    for o in case["ops"]:
        if o["k"] == "pt":
            ops.append(prog.to_epg(o["o"], epg))
        elif o["k"] == "Sint":
            ops.append(epg.S(np.array([o["v"]], dtype=int), **kw))
        elif o["k"] == "Spy":
            ops.append(epg.S(int(o["v"]), **kw))
        elif o["k"] == "Sfloat" and case["mode"] == "time":
            # 4-component shifts and a per-axis grid: each axis is gridded in its own physical unit
            v4 = (list(o["v"]) + [0, 0, 0])[:3] + [0]
            ops.append(epg.S(np.array([v4], dtype=float) * unit, kgrid=np.array(list(kun / 4) + [tun / 4]), **kw))
        elif o["k"] == "Sfloat":
            ops.append(epg.S(np.array([o["v"]], dtype=float) * unit, kgrid=grid, **kw))
        elif o["k"] == "C":
            ops.append(epg.C(o["m"] * unit, kgrid=np.array(list(kun / 4) + [tun / 4]), **kw))
        elif o["k"] == "G":
            g = np.zeros(dim); g[o["dir"]] = case["grad"] * o["sign"]
            ops.append(epg.G(o["m"] * case["tau_unit"], g if dim > 1 else float(g[0]), kgrid=grid, **kw))
    opts = {}
    if "kvalue" in case and case["kvalue"] != 1.0:
        opts["kvalue"] = case["kvalue"] if np.isscalar(case["kvalue"]) else np.asarray(case["kvalue"])
    if case.get("tvalue", 1.0) != 1.0:
        opts["tvalue"] = case["tvalue"]
    sm = epg.StateMatrix(density=case["pd"], **opts)
    return ops, sm, kun, tun


def k4_of(o, case):
    dim = case["dim"]
    if o["k"] in ("Sint", "Sfloat"):
        v = list(o["v"]) + [0] * (3 - len(o["v"]))
        return v[:3] + [0]
    if o["k"] == "Spy":
        return [o["v"], 0, 0, 0]
    if o["k"] == "C":
        return [0, 0, 0, o["m"]]
    if o["k"] == "G":
        v = [0, 0, 0]; v[o["dir"]] = o["m"] * o["sign"]
        return v + [0]
    raise ValueError(o)


def lines_for(case, kun, tun):
    lines = ["case", f"ninit {f2b(case['pd'])}"]
    for o in case["ops"]:
        if o["k"] == "pt":
            lines.append("npt " + prog.to_line(o["o"]))
        else:
            lines.append("nshift " + " ".join(str(int(x)) for x in k4_of(o, case)))
    lines.append("ndump")
    x, w = case["x"], case["w"]
    lines.append("nsynth " + " ".join(f2b(float(v)) for v in list(kun) + list(x) + [tun, w]))
    return lines


def run_epg(case, epg):
    ops, sm, kun, tun = build(case, epg)
    for op in ops:
        sm = op(sm, inplace=True)
    states = np.asarray(sm.states)[0]
    n = states.shape[0]
    if sm.coords is None:
        nst = sm.nstate
        kk = np.zeros((n, 3)); kk[:, 0] = np.arange(-nst, nst + 1) * kun[0]
        tt = np.zeros(n)
    else:
        k = np.asarray(sm.k)[0]
        kk = np.zeros((n, 3)); kk[:, : k.shape[1]] = k[:, :3]
        tt = np.asarray(sm.t)
        tt = np.zeros(n) if np.ndim(tt) == 0 else tt[0]
    return states, kk, tt, kun, tun


def parse_nd(line):
    toks = line.split()
    assert toks[0] == "nd"
    n = int(toks[1])
    out = {}
    for i in range(n):
        t = toks[2 + 10 * i: 12 + 10 * i]
        key = tuple(int(v) for v in t[:4])
        vals = [lib.b2f(v) for v in t[4:]]
        out[key] = np.array([complex(vals[0], vals[1]), complex(vals[2], vals[3]), complex(vals[4], vals[5])])
    return out


def parse_ps(line):
    toks = line.split()
    vals = [lib.b2f(v) for v in toks[1:7]]
    return np.array([complex(vals[0], vals[1]), complex(vals[2], vals[3]), complex(vals[4], vals[5])])


def compare(cases, epg, tol=1e-7):
    lines, expect = [], []
    for case in cases:
        try:
            with warnings.catch_warnings():
                warnings.simplefilter("ignore")
                res = run_epg(case, epg)
        except Exception as exc:
            expect.append(("error", repr(exc)))
            continue
        expect.append(res)
        lines += lines_for(case, res[3], res[4])
    out = lib.run_driver(lines) if lines else []
    pos, dis, checked = 0, [], 0
    dist = {"states": 0, "max_states": 0}
    for case, ex in zip(cases, expect):
        if isinstance(ex[0], str) and ex[0] == "error":
            dis.append({"kind": "nd-epgpy-raised", "problems": [ex[1]], "input": case})
            continue
        states, kk, tt, kun, tun = ex
        model = parse_nd(out[pos]); pos += 1
        ns = parse_ps(out[pos]); pos += 1
        nb = parse_ps(out[pos]); pos += 1
        checked += 1
        dist["states"] += len(states); dist["max_states"] = max(dist["max_states"], len(states))
        probs = []
        # (1) content
        real = {}
        for st, k, t in zip(states, kk, tt):
            key = tuple(int(round(v)) for v in list(k / kun) + [t / tun])
            if np.max(np.abs(np.array(key[:3]) * kun - k)) > 1e-6 or abs(key[3] * tun - t) > 1e-6:
                probs.append(("stored wavenumber is not on the expected lattice", k.tolist(), float(t))); break
            real[key] = real.get(key, 0) + st
        if not probs:
            for key in set(real) | set(model):
                a = real.get(key, np.zeros(3)); b = model.get(key, np.zeros(3))
                if np.max(np.abs(a - b)) > tol:
                    probs.append(("state at wavenumber index differs (epgpy, model)", key, a.tolist(), b.tolist())); break
        # (2) the property: Fourier synthesis of epgpy's states at x, w  ==  Bloch isochromat (Lean specification)
        x, w = np.asarray(case["x"]), case["w"]
        ph = np.exp(1j * (kk @ x + tt * w))
        synth = (states * ph[:, None]).sum(axis=0)
        if np.max(np.abs(synth - nb)) > 1e-7:
            probs.append(("inverse Fourier sum at the position differs from the Bloch isochromat (epgpy synthesis, Bloch)",
                          synth.tolist(), nb.tolist()))
        if np.max(np.abs(ns - nb)) > 1e-7:
            probs.append(("model synthesis differs from the Bloch isochromat", ns.tolist(), nb.tolist()))
        if probs:
            dis.append({"kind": "model-vs-epgpy nd", "problems": probs, "input": case})
    return checked, dis, dist


# ---------------------------------------------------------------------------------------------
# back-end agreement on the real code: the same sequence through shift-1d / shift-nd / shift-merge /
# shift-prune (batched) and with the back-end changed in the middle of the sequence
# ---------------------------------------------------------------------------------------------
def _content(sm, b=0):
    states = np.asarray(sm.states)
    states = states.reshape((-1,) + states.shape[-2:])[b]
    n = states.shape[0]
    if sm.coords is None:
        kk = np.zeros((n, 3)); kk[:, 0] = np.arange(-sm.nstate, sm.nstate + 1) * (sm.kvalue if np.isscalar(sm.kvalue) else 1.0)
    else:
        k = np.asarray(sm.k)
        k = k.reshape((-1,) + k.shape[-2:])
        k = k[b if k.shape[0] > 1 else 0]
        kk = np.zeros((n, 3)); kk[:, : k.shape[1]] = k[:, :3]
    out = {}
    for st, k in zip(states, kk):
        if np.max(np.abs(st)) < 1e-12:
            continue
        key = tuple(np.round(k, 5) + 0.0)
        out[key] = out.get(key, 0) + st
    return out


def search_backends(r, epg, ncase):
    dis, checked = [], 0
    dist = {"dim1": 0, "dimn": 0, "switch": 0}
    for _ in range(ncase):
        dim = 1 if r.random() < 0.45 else int(r.integers(2, 4))
        dist["dim1" if dim == 1 else "dimn"] += 1
        plan = []
        for _ in range(int(r.integers(2, 9))):
            plan.append(("pt", prog.gen_op(r, POINT[r.integers(len(POINT))])))
            v = r.integers(-2, 3, size=dim)
            if not v.any():
                v[0] = 1
            plan.append(("S", v.tolist()))
        switch = int(r.integers(1, len(plan)))
        ways = (["1d"] if dim == 1 else []) + ["nd", "merge", "prune", "switch"]

        def run(way):
            sm = epg.StateMatrix(shape=(2,)) if way == "prune" else epg.StateMatrix()
            for i, (kind, o) in enumerate(plan):
                if kind == "pt":
                    op = prog.to_epg(o, epg)
                else:
                    w = way
                    if way == "switch":
                        w = ("1d" if dim == 1 else "nd") if i < switch else "merge"
                    if w == "1d":
                        op = epg.S(int(o[0]), prune=0)
                    elif w == "nd":
                        op = epg.S(np.array([o], dtype=int), prune=0)
                    elif w == "merge":
                        op = epg.S(np.array([o], dtype=float), kgrid=0.25, prune=0)
                    else:
                        op = epg.S(np.array([[o], [o]], dtype=float).reshape(2, dim), kgrid=0.25, prune=0)
                sm = op(sm, inplace=True)
            return sm

        try:
            with warnings.catch_warnings():
                warnings.simplefilter("ignore")
                res = {w: _content(run(w)) for w in ways}
                res["prune_b1"] = _content(run("prune"), b=1)
        except Exception as exc:
            dis.append({"kind": "c04-backends", "problems": [("raised", repr(exc))], "input": {"plan": plan, "dim": dim, "switch": switch}})
            continue
        checked += 1
        dist["switch"] += 1
        ref_name = ways[0]
        ref = res[ref_name]
        probs = []
        for w, c in res.items():
            for key in set(ref) | set(c):
                a = ref.get(key, np.zeros(3)); b = c.get(key, np.zeros(3))
                if np.max(np.abs(a - b)) > 1e-9:
                    probs.append((f"back-ends {ref_name} and {w} hold different states at wavenumber", key, np.asarray(a).tolist(), np.asarray(b).tolist()))
                    break
            if probs:
                break
        if probs:
            dis.append({"kind": "c04-backends", "problems": probs, "input": {"plan": plan, "dim": dim, "switch": switch}})
    return checked, dis, dist


def search_batched(r, epg, ncase):
    """shift vectors batched per simulated signal == each signal simulated alone (int and float)"""
    dis, checked = [], 0
    for _ in range(ncase):
        dim = int(r.integers(1, 4))
        bshape = [(2,), (3,), (1, 2), (2, 1), (2, 2), (1, 3)][r.integers(6)]
        B = int(np.prod(bshape))
        isfloat = bool(r.random() < 0.5)
        plan = []
        for _ in range(int(r.integers(2, 7))):
            plan.append(("pt", prog.gen_op(r, POINT[r.integers(len(POINT))])))
            v = r.integers(-1, 2, size=(B, dim))
            for b in range(B):
                if not v[b].any():
                    v[b, 0] = 1
            plan.append(("S", v.tolist()))
        x = r.uniform(-1, 1, size=3)

        def synth(sm, b):
            states = np.asarray(sm.states)
            states = states.reshape((-1,) + states.shape[-2:])
            st = states[b if states.shape[0] > 1 else 0]
            k = np.asarray(sm.k)
            k = k.reshape((-1,) + k.shape[-2:])
            k = k[b if k.shape[0] > 1 else 0]
            kk = np.zeros((st.shape[0], 3)); kk[:, : k.shape[1]] = k[:, :3]
            return (st * np.exp(1j * (kk @ x))[:, None]).sum(axis=0)

        def run(sel):
            sm = epg.StateMatrix(shape=bshape) if sel is None else epg.StateMatrix()
            for kind, o in plan:
                if kind == "pt":
                    op = prog.to_epg(o, epg)
                else:
                    v = np.array(o if sel is None else [o[sel]], dtype=float if isfloat else int)
                    if sel is None:
                        v = v.reshape(bshape + (dim,))
                    op = epg.S(v, prune=0, **({"kgrid": 0.25} if isfloat else {}))
                sm = op(sm, inplace=True)
            return sm

        try:
            with warnings.catch_warnings():
                warnings.simplefilter("ignore")
                smb = run(None)
                vals = [synth(smb, b) for b in range(B)]
                singles = [synth(run(b), 0) for b in range(B)]
        except Exception as exc:
            dis.append({"kind": "c04-batched", "problems": [("raised", repr(exc))], "input": {"plan": plan, "float": isfloat, "bshape": list(bshape)}})
            continue
        checked += 1
        for b in range(B):
            if np.max(np.abs(vals[b] - singles[b])) > 1e-9:
                dis.append({"kind": "c04-batched", "problems": [("batched shift differs from the signal simulated alone (batch index, batched, alone)",
                                                                 b, vals[b].tolist(), singles[b].tolist())],
                            "input": {"plan": plan, "float": isfloat, "x": x.tolist(), "bshape": list(bshape)}})
                break
    return checked, dis


# ---------------------------------------------------------------------------------------------
# capped integer n-D programs (C13): epgpy's shiftnd under max_nstate / nmax vs `NDS.capShift` of the Lean model
# (content of the state table after the whole program), incl. integer time accumulation (4th column, not capped)
# ---------------------------------------------------------------------------------------------
def gen_cap_case(r, maxlen=14):
    dim = int(r.integers(1, 4))
    cap = int(r.integers(1, 5))
    pd = prog.pick(r, 0.3, 2.0, (1.0,), 0.5)
    ops = []
    for _ in range(int(r.integers(2, maxlen + 1))):
        u = r.random()
        if u < 0.5:
            ops.append({"k": "pt", "o": prog.gen_op(r, POINT[r.integers(len(POINT))])})
        elif u < 0.85:
            v = r.integers(-2, 3, size=dim)
            if not v.any():
                v[int(r.integers(dim))] = 1
            ops.append({"k": "Sint", "v": v.tolist()})
        else:
            ops.append({"k": "Cint", "m": int(r.integers(1, 6))})
    return {"dim": dim, "cap": cap, "pd": pd, "ops": ops, "where": ["sm", "op"][r.integers(2)], "prune0": bool(r.random() < 0.5)}


def run_epg_cap(case, epg):
    kw = {"prune": 0} if case["prune0"] else {}
    opkw = dict(kw, nmax=case["cap"]) if case["where"] == "op" else kw
    ops = []
    for o in case["ops"]:
        if o["k"] == "pt":
            ops.append(prog.to_epg(o["o"], epg))
        elif o["k"] == "Sint":
            ops.append(epg.S(np.array([o["v"]], dtype=int), **opkw))
        else:
            ops.append(epg.C(int(o["m"]), **opkw))
    sm = epg.StateMatrix(density=case["pd"], **({"max_nstate": case["cap"]} if case["where"] == "sm" else {}))
    for op in ops:
        sm = op(sm, inplace=True)
    states = np.asarray(sm.states)[0]
    n = states.shape[0]
    if sm.coords is None:
        kk = np.zeros((n, 4)); kk[:, 0] = np.arange(-sm.nstate, sm.nstate + 1)
    else:
        c = np.asarray(sm.coords)[0]
        kk = np.zeros((n, 4)); kk[:, : min(3, c.shape[1])] = c[:, :3]
        if c.shape[1] == 4:
            kk[:, 3] = c[:, 3]
    return states, kk


def lines_cap(case):
    lines = ["case", f"ninit {f2b(case['pd'])}"]
    for o in case["ops"]:
        if o["k"] == "pt":
            lines.append("npt " + prog.to_line(o["o"]))
        elif o["k"] == "Sint":
            v = (list(o["v"]) + [0, 0, 0])[:3]
            lines.append(f"ncshift {case['cap']} {v[0]} {v[1]} {v[2]} 0")
        else:
            lines.append(f"ncshift {case['cap']} 0 0 0 {o['m']}")
    lines.append("ndump")
    return lines


def compare_cap(cases, epg, tol=1e-9):
    lines, expect = [], []
    for case in cases:
        try:
            with warnings.catch_warnings():
                warnings.simplefilter("ignore")
                res = run_epg_cap(case, epg)
        except Exception as exc:
            expect.append(("error", repr(exc)))
            continue
        expect.append(res)
        lines += lines_cap(case)
    out = lib.run_driver(lines) if lines else []
    pos, dis, checked = 0, [], 0
    dist = {"states": 0, "with_time": 0, "beyond_cap_dropped": 0}
    for case, ex in zip(cases, expect):
        if isinstance(ex[0], str) and ex[0] == "error":
            dis.append({"kind": "c13-cap-raised", "problems": [ex[1]], "input": case})
            continue
        states, kk = ex
        model = parse_nd(out[pos]); pos += 1
        checked += 1
        dist["states"] += len(states)
        dist["with_time"] += int(any(o["k"] == "Cint" for o in case["ops"]))
        probs = []
        real = {}
        for st, k in zip(states, kk):
            key = tuple(int(round(v)) for v in k)
            real[key] = real.get(key, 0) + st
        if any(max(abs(k[0]), abs(k[1]), abs(k[2])) > case["cap"] for k in real if np.any(np.abs(real[k]) > 0)):
            probs.append(("a state beyond the cap is kept", case["cap"], sorted(real)[:4]))
        for key in set(real) | set(model):
            a = real.get(key, np.zeros(3)); b = model.get(key, np.zeros(3))
            if np.max(np.abs(a - b)) > tol:
                probs.append(("state at wavenumber index differs (epgpy, capped model)", key, np.asarray(a).tolist(), np.asarray(b).tolist())); break
        if probs:
            dis.append({"kind": "c13-cap", "problems": probs, "input": case})
    return checked, dis, dist


def search_axis_grids(r, epg, ncase):
    """per-axis `kgrid` forms (scalar, one value per axis, fewer values than axes = last one repeated, more values than
    axes = cropped) on the merging and pruning back-ends vs the integer n-D back-end.  The first axis uses a coarse cell
    (2.0) and shifts that are multiples of it, the other axes the fine cell (0.25) and unit shifts: every form is exact, and
    a form that sends the coarse cell to another axis merges states one unit apart there."""
    dis, checked = [], 0
    for _ in range(ncase):
        dim = 3 if r.random() < 0.7 else 2
        scale = np.array([2] + [1] * (dim - 1))
        plan = []
        for _ in range(int(r.integers(4, 10))):
            plan.append(("pt", prog.gen_op(r, POINT[r.integers(len(POINT))])))
            v = r.integers(-2, 3, size=dim)
            v[:-1] *= r.random(dim - 1) < 0.4  # mostly along the last axis: neighbouring states differ there alone
            if not v.any():
                v[-1] = 1
            plan.append(("S", (v * scale).tolist()))
        forms = {"scalar-fine": 0.25, "full": [2.0] + [0.25] * (dim - 1), "short": [2.0, 0.25], "one": [0.25],
                 "long": [2.0, 0.25, 0.25, 0.25, 0.5, 7.0][: dim + 2], "array-short": np.array([2.0, 0.25])}

        def run(form, way):
            sm = epg.StateMatrix(shape=(2,)) if way == "prune" else epg.StateMatrix()
            for kind, o in plan:
                if kind == "pt":
                    op = prog.to_epg(o, epg)
                elif form is None:
                    op = epg.S(np.array([o], dtype=int), prune=0)
                elif way == "merge":
                    op = epg.S(np.array([o], dtype=float), kgrid=forms[form], prune=0)
                else:
                    op = epg.S(np.array([[o], [o]], dtype=float).reshape(2, dim), kgrid=forms[form], prune=0)
                sm = op(sm, inplace=True)
            return sm

        try:
            with warnings.catch_warnings():
                warnings.simplefilter("ignore")
                ref = _content(run(None, "nd"))
                res = {(f, w): _content(run(f, w)) for f in forms for w in ("merge", "prune")}
        except Exception as exc:
            dis.append({"kind": "c04-axis-grids", "problems": [("raised", repr(exc))], "input": {"plan": plan, "dim": dim}})
            continue
        checked += 1
        probs = []
        for (f, w), c in res.items():
            for key in set(ref) | set(c):
                a = ref.get(key, np.zeros(3)); b = c.get(key, np.zeros(3))
                if np.max(np.abs(a - b)) > 1e-9:
                    probs.append((f"kgrid form {f} ({forms[f]!r}) on the {w} back-end and the integer back-end hold different states at wavenumber",
                                  key, np.asarray(a).tolist(), np.asarray(b).tolist()))
                    break
            if probs:
                break
        if probs:
            dis.append({"kind": "c04-axis-grids", "problems": probs, "input": {"plan": plan, "dim": dim}})
    return checked, dis


def compare_grid_helpers(r, epg, ncase):
    """`shift.get_grid` and `shift.append_batch_axes` vs the Lean definitions `Shp.getGrid` / `Shp.appendBatchAxes`
    (about which `Props/C04Grid.lean` proves: a given axis uses its value, a further axis the LAST value): scalars,
    lists and arrays of 0-5 values against 1-5 coordinate axes; shift shapes of rank 1-4 against 0-4 batch axes."""
    from epgpy import shift as shiftmod
    pool = [0.5, 0.25, 0.02, 2.0, 1.0, 7.0, 0.125, 3.5]
    lines, got, inputs = [], [], []
    for _ in range(ncase):
        kdim = int(r.integers(1, 6))
        n = int(r.integers(0, 6))
        vals = [pool[i] for i in r.permutation(len(pool))[:n]]
        form = int(r.integers(3))
        if n == 1 and form == 0:
            arg = vals[0]
        elif form == 1:
            arg = np.array(vals, dtype=float)
        else:
            arg = list(vals)
        try:
            res = ["grid"] + [repr(float(x)) for x in shiftmod.get_grid(arg, kdim)]
        except Exception as exc:
            res = ["err", type(exc).__name__]
        got.append(" ".join(res))
        lines.append(" ".join(["ggrid", str(kdim)] + [repr(float(v)) for v in vals]))
        inputs.append({"fn": "get_grid", "grid": vals, "kdim": kdim})
        shp = tuple(int(x) for x in r.integers(1, 4, size=int(r.integers(1, 5))))
        ndim = int(r.integers(0, 5))
        try:
            out = shiftmod.append_batch_axes(np.zeros(shp), ndim).shape
            res = "shape " + ("x".join(str(x) for x in out) if out else "-")
        except Exception as exc:
            res = "err " + type(exc).__name__
        got.append(res)
        lines.append(f"gbatch {'x'.join(str(x) for x in shp)} {ndim}")
        inputs.append({"fn": "append_batch_axes", "shape": shp, "ndim": ndim})
    out = lib.run_driver(lines)
    dis = []
    for g, m, i in zip(got, out, inputs):
        if g.strip() != m.strip():
            dis.append({"kind": "c04-grid-helpers", "problems": [("epgpy and the Lean model differ", g, m)], "input": i})
    if len(out) != len(got):
        dis.append({"kind": "c04-grid-helpers", "problems": [("driver returned", len(out), "lines for", len(got))], "input": {}})
    return len(got), dis
