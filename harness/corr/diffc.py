"""Correspondence `diff`: Lean `Model/DiffSM` (bookkeeping of diff.py with symbolic-derivative
operators) vs epgpy's partial state matrices after every operator; and the failing-input search of
C02/C03/C19: epgpy Jacobian/Hessian vs the jet specification (`Model/Jet`: the plain model run at
second-order jets) and finite differences."""
import itertools
import warnings

import numpy as np

import lib
import prog

PARAMS = {"T": ["alpha", "phi"], "Phi": ["phi"], "E": ["tau", "T1", "T2", "g"], "P": ["tau", "g"], "R": ["rT", "rL", "r0"]}
P2 = {
    "T": [("alpha", "alpha"), ("alpha", "phi"), ("phi", "phi")],
    "Phi": [("phi", "phi")],
    "E": [("T1", "T1"), ("T1", "tau"), ("T2", "T2"), ("T2", "g"), ("T2", "tau"), ("g", "g"), ("g", "tau"), ("tau", "tau")],
    "P": [("g", "g"), ("g", "tau"), ("tau", "tau")],
    "R": [("r0", "r0"), ("rL", "rL"), ("rT", "rT")],
}


def pair(a, b):
    return (b, a) if a > b else (a, b)


# ---------------------------------------------------------------------------
# declaration forms -> epgpy keyword arguments / intended meaning


def decl_kwargs(decl):
    """JSON declaration -> constructor keywords of epgpy"""
    kw = {}
    if decl is None:
        return kw
    o1, o2 = decl.get("order1"), decl.get("order2")
    if o1 is not None:
        kw["order1"] = o1
    if o2 is not None:
        if isinstance(o2, dict):
            kw["order2"] = {tuple(k.split(",")): v for k, v in o2.items()}
        elif isinstance(o2, list) and o2 and isinstance(o2[0], (list, tuple)):
            kw["order2"] = [tuple(p) for p in o2]
        else:
            kw["order2"] = o2
    return kw


def meaning(kind, decl):
    """intended meaning of a declaration (harness reading of the documented forms):
    returns (c1: {var: {param: c}}, c2: {(a,b): {param: c}}, second_order_vars, explicit_pairs or None)"""
    params = PARAMS.get(kind, [])
    if not decl:
        return {}, {}, set(), None
    o1, o2 = decl.get("order1"), decl.get("order2")
    if (not o1) and isinstance(o2, (bool, str)):
        o1 = o2
    if isinstance(o1, str):
        o1 = [o1]
    if not o1:
        c1 = {}
    elif o1 is True:
        c1 = {p: {p: 1.0} for p in params}
    elif isinstance(o1, list):
        c1 = {p: {p: 1.0} for p in o1}
    elif all(isinstance(v, str) for v in o1.values()):
        c1 = {v: {p: 1.0} for v, p in o1.items()}
    else:
        c1 = {v: dict(ps) for v, ps in o1.items()}
    c2, so, explicit = {}, set(), None
    if o2:
        if o2 is True:
            so = set(c1)
        elif isinstance(o2, str):
            so = {o2}
        elif isinstance(o2, list) and all(isinstance(x, str) for x in o2):
            so = set(o2)
        elif isinstance(o2, list):
            explicit = {pair(*p) for p in o2}
        else:
            explicit = {pair(*k.split(",")) for k in o2}
            c2 = {pair(*k.split(",")): dict(v) for k, v in o2.items()}
    return c1, c2, so, explicit


def decl_tokens(order1, order2, auto):
    """parsed declaration (dicts) -> driver tokens"""
    t1 = []
    for v, ps in order1.items():
        if not ps:
            t1.append(f"{v}::")
        for p, c in ps.items():
            t1.append(f"{v}:{p}:{lib.f2b(c)}")
    t2 = []
    for (a, b), ps in order2.items():
        if not ps:
            t2.append(f"{a},{b}::")
        for p, c in ps.items():
            t2.append(f"{a},{b}:{p}:{lib.f2b(c)}")
    return " ; " + " ".join(t1) + " ; " + " ".join(t2) + " ; " + ("1" if auto else "0")


def parsed_decl(op):
    """read the declaration as parsed by epgpy from the live operator"""
    o1 = {v: {p: float(np.real(c)) for p, c in ps.items()} for v, ps in getattr(op, "order1", {}).items()}
    o2raw = getattr(op, "order2", {})
    if isinstance(o2raw, set):
        o2 = {tuple(k): {} for k in sorted(o2raw)}
    else:
        o2 = {tuple(k): {p: float(np.real(c)) for p, c in v.items()} for k, v in o2raw.items()}
    return o1, o2, bool(getattr(op, "auto_cross_derivatives", True))


# ---------------------------------------------------------------------------
# running epgpy


def build_ops(case, epg):
    ops = []
    for o in case["program"]:
        kw = decl_kwargs(o.get("decl")) if o["op"] in PARAMS else {}
        ops.append(prog.to_epg(o, epg, **kw))
    return ops


def states_of(sm):
    st = np.asarray(sm.states)
    assert st.shape[0] == 1 and st.ndim == 3, st.shape
    return st[0].copy()


def run_epg_partials(case, epg):
    """apply operators (in place as simulate does, or out of place when case['call'] == 'copy');
    record partial dictionaries after every op.  Out of place, every earlier state matrix and its
    partials must stay what they were when recorded (checked at the end)."""
    st, pd = case["init"]
    sm = epg.StateMatrix(density=pd) if st is None else epg.StateMatrix(np.asarray(st), density=pd)
    ops = build_ops(case, epg)
    inplace = case.get("call", "inplace") != "copy"
    out, live = [], []
    for op in ops:
        sm = op(sm, inplace=inplace)
        o1 = {v: states_of(x) for v, x in getattr(sm, "order1", {}).items()}
        o2 = {tuple(k): states_of(x) for k, x in getattr(sm, "order2", {}).items()}
        out.append((states_of(sm), o1, o2))
        if not inplace:
            live.append((sm, dict(getattr(sm, "order1", {})), dict(getattr(sm, "order2", {}))))
    if not inplace:
        for i, ((smi, l1, l2), (st_i, o1, o2)) in enumerate(zip(live, out)):
            bad = not np.array_equal(states_of(smi), st_i)
            bad = bad or any(states_of(l1[v]).shape != o1[v].shape or not np.array_equal(states_of(l1[v]), o1[v]) for v in o1)
            bad = bad or any(states_of(l2[k]).shape != o2[tuple(k)].shape or not np.array_equal(states_of(l2[k]), o2[tuple(k)]) for k in l2)
            if bad:
                raise MutatedInput(f"state matrix / partials returned by operator #{i} were modified by a later out-of-place call")
    return ops, out


class MutatedInput(Exception):
    pass


def parse_dump(lines, pos, two):
    """parse a `d1 m` / `d2 m` block; returns dict, new position"""
    head = lines[pos].split()
    m = int(head[1])
    pos += 1
    res = {}
    for _ in range(m):
        toks = lines[pos].split()
        pos += 1
        if two:
            key = (toks[1], toks[2])
            rest = toks[3:]
        else:
            key = toks[1]
            rest = toks[2:]
        n = int(rest[0])
        vals = np.array([lib.b2f(t) for t in rest[1:]]).reshape(2 * n + 1, 3, 2)
        res[key] = vals[..., 0] + 1j * vals[..., 1]
    return res, pos


def compare_bookkeeping(cases, epg, tol=lib.TOL):
    lines, expect = [], []
    for case in cases:
        try:
            with warnings.catch_warnings():
                warnings.simplefilter("ignore")
                ops, res = run_epg_partials(case, epg)
        except Exception as exc:
            expect.append(("error", repr(exc)))
            continue
        st, pd = case["init"]
        lines.append("case")
        lines.append(prog.init_line(None if st is None else np.asarray(st), pd))
        for o, op in zip(case["program"], ops):
            ln = prog.to_line(o)
            if o["op"] in PARAMS:
                ln += decl_tokens(*parsed_decl(op))
            lines.append(ln)
            lines.append("dump")
            lines.append("dumpd")
        expect.append(("ok", res))
    out = lib.run_driver(lines) if lines else []
    pos, dis, checked = 0, [], 0
    for ci, (case, ex) in enumerate(zip(cases, expect)):
        if ex[0] == "error":
            dis.append({"case": ci, "kind": "epgpy-raised", "error": ex[1], "input": case})
            continue
        bad = False
        for oi, (st, o1, o2) in enumerate(ex[1]):
            _, mn, mst = lib.parse_states(out[pos]); pos += 1
            m1, pos = parse_dump(out, pos, False)
            m2, pos = parse_dump(out, pos, True)
            a1, pos = parse_dump(out, pos, False)
            a2, pos = parse_dump(out, pos, True)
            checked += 1
            if bad:
                continue
            scale = max(1.0, float(np.max(np.abs(st))))
            problems = []
            ok, err = lib.close(st, mst, tol=tol)
            if not ok:
                problems.append(("states", err))
            if set(m1) != set(o1):
                problems.append(("order1 keys", sorted(set(m1) ^ set(o1))))
            if set(m2) != set(o2):
                problems.append(("order2 keys", sorted(set(m2) ^ set(o2))))
            for k in set(m1) & set(o1):
                ok, err = lib.close(o1[k], m1[k], tol=tol)
                if not ok:
                    problems.append((f"order1[{k}]", err))
            for k in set(m2) & set(o2):
                ok, err = lib.close(o2[k], m2[k], tol=tol)
                if not ok:
                    problems.append((f"order2[{k}]", err))
            # the accumulation-form model (the one the theorems are about) vs the mirror model
            if set(a1) != set(m1) or set(a2) != set(m2):
                problems.append(("internal: accumulation-form keys differ from mirror", sorted(set(a2) ^ set(m2))))
            for k in set(a1) & set(m1):
                ok, err = lib.close(a1[k], m1[k], tol=tol)
                if not ok:
                    problems.append((f"internal: order1[{k}] accumulation-form vs mirror", err))
            for k in set(a2) & set(m2):
                ok, err = lib.close(a2[k], m2[k], tol=tol)
                if not ok:
                    problems.append((f"internal: order2[{k}] accumulation-form vs mirror", err))
            if problems:
                bad = True
                dis.append({"case": ci, "kind": "model-vs-epgpy partials", "op_index": oi, "op": case["program"][oi],
                            "problems": problems, "input": case})
    return checked, dis


# ---------------------------------------------------------------------------
# generation of declared programs


def rand_coeff(r):
    return float(np.round(r.uniform(-2, 2), 3)) if r.random() < 0.7 else 1.0


def gen_decl_free(r, kind, varpool):
    """arbitrary (not necessarily consistent) declaration in a random documented form"""
    params = PARAMS[kind]
    if kind == "R":
        params = ["rT", "rL"]  # r0 only when given
    form = r.integers(0, 7)
    d = {}
    if form == 0:
        return None
    if form == 1:
        d["order1"] = True
    elif form == 2:
        d["order1"] = str(params[r.integers(len(params))])
    elif form == 3:
        k = int(r.integers(1, len(params) + 1))
        d["order1"] = [str(p) for p in r.permutation(params)[:k]]
    elif form == 4:
        k = int(r.integers(1, len(params) + 1))
        vs = r.permutation(varpool)[:k]
        d["order1"] = {str(v): str(p) for v, p in zip(vs, r.permutation(params)[:k])}
    else:
        nv = int(r.integers(1, 3))
        vs = r.permutation(varpool)[:nv]
        d["order1"] = {}
        for v in vs:
            k = int(r.integers(1, min(2, len(params)) + 1))
            d["order1"][str(v)] = {str(p): rand_coeff(r) for p in r.permutation(params)[:k]}
    # second order
    if r.random() < 0.5:
        vars1 = list(meaning(kind, d)[0])
        f2 = r.integers(0, 4)
        if f2 == 0:
            d["order2"] = True
        elif f2 == 1:
            d["order2"] = str(vars1[r.integers(len(vars1))])
        elif f2 == 2:
            pairs = [pair(a, b) for a in vars1 for b in vars1 + list(varpool[:2]) if True]
            pairs = sorted(set(pairs))
            k = int(r.integers(1, len(pairs) + 1))
            d["order2"] = [list(pairs[i]) for i in r.permutation(len(pairs))[:k]]
        else:
            pairs = sorted({pair(a, b) for a in vars1 for b in vars1})
            k = int(r.integers(1, len(pairs) + 1))
            c1 = meaning(kind, d)[0]
            o2 = {}
            for i in r.permutation(len(pairs))[:k]:
                a, b = pairs[i]
                ps = sorted(set(c1[a]) & set(c1[b]))
                o2[f"{a},{b}"] = {p: rand_coeff(r) for p in ps if r.random() < 0.5}
            d["order2"] = o2
    return d


def gen_case_free(r, maxlen=12, plain=False):
    """program with arbitrary declarations (bookkeeping correspondence)"""
    L = int(r.integers(1, maxlen + 1))
    kinds = ["T", "E", "S", "T", "E", "S", "Phi", "P", "R", "WAIT"]
    if plain:
        kinds += ["SPOILER", "RESET", "PD"]
    varpool = ["a", "b", "x", "T2", "alpha", "tau"]
    program = []
    for _ in range(L):
        k = kinds[r.integers(len(kinds))]
        o = prog.gen_op(r, k)
        if k == "E" and o["tau"] == 0.0:
            o["tau"] = 1.5
        if k in PARAMS:
            if k == "R" and o.get("r0") is None:
                pass
            o["decl"] = gen_decl_free(r, k, varpool)
        program.append(o)
    st, pd = prog.gen_init(r, nmax=2)
    call = "copy" if r.random() < 0.35 else "inplace"
    if call == "copy":  # plain operators applied out of place drop the partials (known finding F1)
        program = [o for o in program if o["op"] in PARAMS or o["op"] == "S"] or program[:1]
    return {"init": (st, pd), "program": program, "call": call}


# ---------------------------------------------------------------------------
# consistent programs (the quantifier of C02 / C03) and the jet specification


def gen_case_consistent(r, maxlen=10, mode=None, plain_ops=False, second=True):
    """auto mode: every operator activates its parameters at one order, a variable has the same
    order everywhere; explicit mode: every operator carrying a variable of a requested pair lists it."""
    mode = mode or ("auto" if r.random() < 0.6 else "explicit")
    L = int(r.integers(2, maxlen + 1))
    kinds = ["T", "E", "S", "T", "E", "S", "Phi", "P", "R", "WAIT"]
    if plain_ops:
        kinds += ["SPOILER", "RESET", "PD"]
    shared1 = ["u", "v"]      # first-order shared variables
    shared2 = ["x", "y"]      # second-order shared variables
    program = []
    allvars = []
    for _ in range(L):
        k = kinds[r.integers(len(kinds))]
        o = prog.gen_op(r, k)
        if k in ("E", "P") and o["tau"] == 0.0:
            o["tau"] = 2.5
        if k == "R":
            o["r0"] = prog.pick(r, 0, 2)
        if k in PARAMS and r.random() < 0.75:
            params = PARAMS[k]
            order = 2 if (second and r.random() < 0.5) else 1
            pool = shared2 if order == 2 else shared1
            form = r.integers(0, 5)
            d = {}
            tag = f"{k}{len(program)}"
            if form == 0:
                d["order1"] = True
                vs = {p: {p: 1.0} for p in params}
                # identity names: order class is decided by the parameter name; keep them apart per order
                # by never mixing: identity names are only used with a fixed order per name
                order = 2 if all(namesafe(p, 2, allvars) for p in params) and order == 2 else 1
                if not all(namesafe(p, order, allvars) for p in params):
                    d = None
            elif form == 1:
                p = str(params[r.integers(len(params))])
                d["order1"] = p
                if not namesafe(p, order, allvars):
                    d = None
            elif form == 2:
                kk = int(r.integers(1, len(params) + 1))
                ps = [str(p) for p in r.permutation(params)[:kk]]
                d["order1"] = ps
                if not all(namesafe(p, order, allvars) for p in ps):
                    d = None
            elif form == 3:
                kk = int(r.integers(1, min(2, len(params)) + 1))
                vs = r.permutation(pool)[:kk]
                d["order1"] = {str(v): str(p) for v, p in zip(vs, r.permutation(params)[:kk])}
            else:
                nv = int(r.integers(1, 3))
                vs = r.permutation(pool)[:nv]
                d["order1"] = {}
                for v in vs:
                    kk = int(r.integers(1, min(2, len(params)) + 1))
                    d["order1"][str(v)] = {str(p): rand_coeff(r) for p in r.permutation(params)[:kk]}
            if d is not None:
                c1 = meaning(k, d)[0]
                for v in c1:
                    allvars.append((v, order))
                if order == 2 and mode == "auto":
                    vs = list(c1)
                    if d.get("order1") is True:
                        d["order2"] = True
                    elif len(vs) == 1:
                        d["order2"] = vs[0]
                    else:
                        d["order2"] = [str(v) for v in vs]
                o["decl"] = d
                o["_order"] = order
        program.append(o)
    vars_all = sorted({v for v, _ in allvars})
    so = sorted({v for v, od in allvars if od == 2})
    requested = None
    if mode == "explicit":
        # requested pairs: random subset of pairs of activated variables; every operator lists the
        # pairs that involve one of its variables (what Sequence.hessian produces)
        pairs = sorted({pair(a, b) for a in vars_all for b in vars_all})
        if pairs:
            kk = int(r.integers(1, len(pairs) + 1))
            requested = sorted({pairs[i] for i in r.permutation(len(pairs))[:kk]})
        else:
            requested = []
        for o in program:
            d = o.get("decl")
            if not d:
                continue
            d.pop("order2", None)
            mine = set(meaning(o["op"], d)[0])
            lst = [list(p) for p in requested if set(p) & mine]
            if lst:
                if r.random() < 0.5:
                    d["order2"] = lst
                else:
                    d["order2"] = {f"{a},{b}": {} for a, b in lst}
    st, pd = prog.gen_init(r, nmax=2)
    call = "copy" if r.random() < 0.35 else "inplace"
    if call == "copy" and not plain_ops:
        program = [o for o in program if o["op"] in PARAMS or o["op"] == "S"] or program[:1]
    return {"init": (st, pd), "program": program, "vars": vars_all, "second_order_vars": so,
            "call": call, "mode": mode, "requested": None if requested is None else [list(p) for p in requested]}


def namesafe(name, order, allvars):
    """identity-named variable may be used only if every earlier use has the same order"""
    return all(od == order for v, od in allvars if v == name)


def spec_lines(case):
    st, pd = case["init"]
    lines = ["case", "vars " + " ".join(case["vars"]), prog.init_line(None if st is None else np.asarray(st), pd)]
    for o in case["program"]:
        ln = prog.to_line(o)
        if o["op"] in PARAMS:
            c1, c2, _, _ = meaning(o["op"], o.get("decl"))
            ln += decl_tokens(c1, c2, True)
        lines.append(ln)
    lines.append("dumpj")
    return lines


def parse_jets(lines, pos):
    _, n, j0 = lib.parse_states(lines[pos]); pos += 1
    j1, pos = parse_dump(lines, pos, False)
    j2, pos = parse_dump(lines, pos, True)
    return j0, j1, j2, pos


def requested_pairs(case):
    if case["mode"] == "explicit":
        return [tuple(p) for p in case["requested"]]
    return sorted({pair(a, b) for a in case["second_order_vars"] for b in case["vars"]})


def compare_jets(cases, epg, tol1=1e-8, tol2=1e-7, via_probe=True):
    """epgpy partial state matrices (and Jacobian/Hessian probes) vs the jet specification"""
    lines, expect = [], []
    for case in cases:
        try:
            with warnings.catch_warnings():
                warnings.simplefilter("ignore")
                ops, res = run_epg_partials(case, epg)
                probes = None
                if via_probe and case["vars"]:
                    V = case["vars"] + ["magnitude"]
                    seq = build_ops(case, epg) + [epg.ADC]
                    st, pd = case["init"]
                    init = epg.StateMatrix(density=pd) if st is None else epg.StateMatrix(np.asarray(st), density=pd)
                    sig, jac, hes = epg.simulate(seq, init=init, probe=[epg.ADC, epg.Jacobian(V), epg.Hessian(V)])
                    probes = (np.asarray(sig), np.asarray(jac), np.asarray(hes))
        except Exception as exc:
            expect.append(("error", repr(exc)))
            continue
        lines += spec_lines(case)
        expect.append(("ok", res[-1], probes))
    out = lib.run_driver(lines) if lines else []
    pos, dis, checked = 0, [], 0
    for ci, (case, ex) in enumerate(zip(cases, expect)):
        if ex[0] == "error":
            dis.append({"case": ci, "kind": "epgpy-raised", "error": ex[1], "input": case})
            continue
        (st, o1, o2), probes = ex[1], ex[2]
        j0, j1, j2, pos = parse_jets(out, pos)
        checked += 1
        problems = []
        ok, err = lib.close(st, j0, tol=1e-9)
        if not ok:
            problems.append(("signal changed by differentiation / model", err))
        n = (st.shape[0] - 1) // 2
        zero = np.zeros_like(st)
        for v in case["vars"]:
            got = o1.get(v, zero)
            ok, err = lib.close(got, j1[v], tol=tol1, scale=max(1.0, float(np.max(np.abs(j1[v])))))
            if not ok:
                problems.append((f"d/d{v}", err, "key-missing" if v not in o1 else "value"))
        for a, b in requested_pairs(case):
            exp = j2[(a, b)]
            got = o2.get((a, b), o2.get((b, a), zero))
            ok, err = lib.close(got, exp, tol=tol2, scale=max(1.0, float(np.max(np.abs(exp)))))
            if not ok:
                problems.append((f"d2/d{a}d{b}", err, "key-missing" if (a, b) not in o2 else "value"))
            if (a, b) in o2 and (b, a) in o2:
                ok, err = lib.close(o2[(a, b)], o2[(b, a)], tol=1e-12)
                if not ok:
                    problems.append((f"H[{a},{b}] != H[{b},{a}]", err))
        if probes is not None:
            sig, jac, hes = probes
            V = case["vars"] + ["magnitude"]
            f0 = st[n, 0]
            for i, v in enumerate(V):
                exp = f0 if v == "magnitude" else j1[v][n, 0]
                if abs(jac.reshape(-1)[i] - exp) > tol1 * max(1.0, abs(exp)):
                    problems.append((f"Jacobian probe [{v}]", abs(jac.reshape(-1)[i] - exp)))
            H = hes.reshape(len(V), len(V))
            req = set(requested_pairs(case))
            for i, a in enumerate(V):
                for j, b in enumerate(V):
                    if a == "magnitude" and b == "magnitude":
                        continue
                    if a == "magnitude" or b == "magnitude":
                        w = b if a == "magnitude" else a
                        exp = j1[w][n, 0]
                    elif pair(a, b) in req:
                        exp = j2[pair(a, b)][n, 0]
                    else:
                        continue
                    if abs(H[i, j] - exp) > tol2 * max(1.0, abs(exp)):
                        problems.append((f"Hessian probe [{a},{b}]", abs(H[i, j] - exp)))
        if problems:
            dis.append({"case": ci, "kind": "jets-vs-epgpy", "problems": problems, "input": case,
                        "expected_by": "Model.Jet: plain model run at second-order jets (specification of C02/C03)"})
    return checked, dis


# ---------------------------------------------------------------------------
# C19: activation subsets, no declarations, renaming


def strip_case(case, keep_vars=None, rename=None):
    """same program with only the declarations of `keep_vars` (None = no declaration at all)"""
    out = dict(case, program=[])
    for o in case["program"]:
        o2 = {k: v for k, v in o.items() if k != "decl"}
        d = o.get("decl")
        if d and keep_vars:
            c1 = meaning(o["op"], d)[0]
            sub = {v: ps for v, ps in c1.items() if v in keep_vars}
            if sub:
                if rename:
                    sub = {rename.get(v, v): ps for v, ps in sub.items()}
                o2["decl"] = {"order1": sub}
        out["program"].append(o2)
    return out


def compare_subsets(cases, epg):
    dis, checked = [], 0
    for ci, case in enumerate(cases):
        try:
            with warnings.catch_warnings():
                warnings.simplefilter("ignore")
                _, full = run_epg_partials(case, epg)
                _, plain = run_epg_partials(strip_case(case), epg)
        except Exception:
            continue
        checked += 1
        st_full, o1_full, _ = full[-1]
        if not np.array_equal(st_full, plain[-1][0]):
            dis.append({"case": ci, "kind": "subset-vs-full", "problems": [("signal changed by activating differentiation",
                        float(np.max(np.abs(st_full - plain[-1][0]))))], "input": case})
            continue
        for v in case["vars"]:
            try:
                with warnings.catch_warnings():
                    warnings.simplefilter("ignore")
                    _, alone = run_epg_partials(strip_case(case, {v}), epg)
                    _, ren = run_epg_partials(strip_case(case, {v}, {v: "zz_" + v}), epg)
            except Exception as exc:
                dis.append({"case": ci, "kind": "subset-vs-full", "problems": [(f"alone run raised {exc!r}",)], "input": case})
                break
            checked += 2
            a = alone[-1][1].get(v)
            f = o1_full.get(v)
            rn = ren[-1][1].get("zz_" + v)
            if not np.array_equal(alone[-1][0], st_full):
                dis.append({"case": ci, "kind": "subset-vs-full", "problems": [(f"signal differs when only {v} is derived",)], "input": case})
                break
            if (a is None) != (f is None) or (a is not None and not lib.close(a, f, tol=1e-12)[0]):
                dis.append({"case": ci, "kind": "subset-vs-full", "variable": v,
                            "problems": [(f"column {v}: alone vs together", None if a is None or f is None else float(np.max(np.abs(a - f))))],
                            "input": case})
                break
            if (a is None) != (rn is None) or (a is not None and not lib.close(a, rn, tol=1e-12)[0]):
                dis.append({"case": ci, "kind": "subset-vs-full", "variable": v,
                            "problems": [(f"column {v}: renamed", None)], "input": case})
                break
    return checked, dis


# ---------------------------------------------------------------------------
# active probes of known findings


def probe_F1(epg):
    """plain Operator.__call__ ignores the partial derivatives carried by the state matrix"""
    out = []
    base = {"init": (None, 1.0), "vars": ["alpha"], "second_order_vars": [], "mode": "auto", "requested": None}
    T1 = {"op": "T", "alpha": 30.0, "phi": 20.0, "decl": {"order1": "alpha"}}
    E = {"op": "E", "tau": 5.0, "T1": 800.0, "T2": 60.0, "g": 0.01}
    T2 = {"op": "T", "alpha": 70.0, "phi": 0.0}
    for name, mid, call in (("SPOILER in place", {"op": "SPOILER"}, "inplace"), ("RESET in place", {"op": "RESET"}, "inplace"),
                            ("PD(reset) in place", {"op": "PD", "pd": 0.7, "reset": True}, "inplace"),
                            ("Wait out of place", {"op": "WAIT", "duration": 1.0}, "copy")):
        case = dict(base, program=[T1, E, T2, mid, T2], call=call)
        _, dd = compare_jets([case], epg, via_probe=False)
        for d in dd:
            out.append(dict(d, kind="F1-probe", probe=name))
    return out
