"""Symbolic Sequence layer (sequence.py) against the jet specification and against hand-built
concrete operators: searches of C11 and of the Sequence clauses of C03 / C17."""
import math
import warnings

import numpy as np

import lib
import diffc


# ---------------------------------------------------------------------------
# independent second-order forward-mode AD on the harness's own expression trees


class D2:
    """value, gradient {var: d}, hessian {(a,b) sorted: d2}"""

    def __init__(self, v, g=None, h=None):
        self.v, self.g, self.h = v, g or {}, h or {}

    @staticmethod
    def lift(x):
        return x if isinstance(x, D2) else D2(float(x))

    def chain(self, f, f1, f2):
        g = {a: f1 * da for a, da in self.g.items()}
        h = {}
        for a in self.g:
            for b in self.g:
                if a <= b:
                    h[(a, b)] = f2 * self.g[a] * self.g[b]
        for k, d in self.h.items():
            h[k] = h.get(k, 0.0) + f1 * d
        return D2(f, g, h)

    def __add__(s, o):
        o = D2.lift(o)
        g = dict(s.g)
        for a, d in o.g.items():
            g[a] = g.get(a, 0.0) + d
        h = dict(s.h)
        for k, d in o.h.items():
            h[k] = h.get(k, 0.0) + d
        return D2(s.v + o.v, g, h)

    def __neg__(s):
        return D2(-s.v, {a: -d for a, d in s.g.items()}, {k: -d for k, d in s.h.items()})

    def __sub__(s, o):
        return s + (-D2.lift(o))

    def __mul__(s, o):
        o = D2.lift(o)
        g = {}
        for a in set(s.g) | set(o.g):
            g[a] = s.g.get(a, 0.0) * o.v + s.v * o.g.get(a, 0.0)
        h = {}
        vs = sorted(set(s.g) | set(o.g))
        for a in vs:
            for b in vs:
                if a <= b:
                    h[(a, b)] = s.g.get(a, 0.0) * o.g.get(b, 0.0) + s.g.get(b, 0.0) * o.g.get(a, 0.0)
        for k, d in s.h.items():
            h[k] = h.get(k, 0.0) + d * o.v
        for k, d in o.h.items():
            h[k] = h.get(k, 0.0) + s.v * d
        return D2(s.v * o.v, g, h)

    def inv(s):
        r = 1.0 / s.v
        return s.chain(r, -r * r, 2 * r * r * r)

    def __truediv__(s, o):
        return s * D2.lift(o).inv()

    def exp(s):
        e = math.exp(s.v)
        return s.chain(e, e, e)

    def log(s):
        return s.chain(math.log(s.v), 1.0 / s.v, -1.0 / (s.v * s.v))

    def pown(s, n):
        return s.chain(s.v**n, n * s.v ** (n - 1), n * (n - 1) * s.v ** (n - 2))

    def powd(s, o):  # s ** o = exp(o log s)
        return (D2.lift(o) * s.log()).exp()

    def abs(s):
        sg = 1.0 if s.v >= 0 else -1.0
        return s.chain(abs(s.v), sg, 0.0)


# expression trees: ("var", name) | ("const", c) | (op, a[, b])


def gen_expr(r, vars_, depth):
    if depth == 0 or r.random() < 0.25:
        if r.random() < 0.7:
            return ("var", str(vars_[r.integers(len(vars_))]))
        return ("const", float(np.round(r.uniform(0.5, 2.0), 2)))
    op = ["add", "mul", "div", "sub", "neg", "pow2", "exp", "log", "abs", "powc", "pow"][r.integers(11)]
    a = gen_expr(r, vars_, depth - 1)
    if op in ("neg", "pow2", "exp", "log", "abs"):
        return (op, a)
    return (op, a, gen_expr(r, vars_, depth - 1))


def ev(t, env, mode):
    """mode 'ad': D2 values; mode 'epg': epgpy Expression; mode 'num': floats"""
    k = t[0]
    if k == "var":
        return env[t[1]]
    if k == "const":
        return t[1] if mode != "ad" else D2(t[1])
    a = ev(t[1], env, mode)
    b = ev(t[2], env, mode) if len(t) > 2 else None
    if k == "add":
        return a + b
    if k == "sub":
        return a - b
    if k == "mul":
        return a * b
    if k == "div":
        return a / b
    if k == "neg":
        return -a
    if k == "pow2":
        return a.pown(2) if mode == "ad" else a**2
    if k == "powc":
        c = 1.5
        return D2.lift(a).powd(c) if mode == "ad" else a**c
    if k == "pow":
        return D2.lift(a).powd(b) if mode == "ad" else a**b
    if k in ("exp", "log", "abs"):
        if mode == "ad":
            return getattr(D2.lift(a), k)()
        if mode == "num":
            return {"exp": math.exp, "log": math.log, "abs": abs}[k](a)
        return env["__math__"][k](a)
    raise ValueError(k)


def well_conditioned(t, values):
    """reject trees that leave the domain (log/pow of non-positive, huge values, near-zero denominators)"""
    try:
        def chk(t):
            k = t[0]
            if k == "var":
                return values[t[1]]
            if k == "const":
                return t[1]
            a = chk(t[1])
            b = chk(t[2]) if len(t) > 2 else None
            if k == "div" and abs(b) < 0.2:
                raise ValueError
            if k in ("log", "powc", "pow") and a < 0.2:
                raise ValueError
            if k == "abs" and abs(a) < 0.1:
                raise ValueError
            if k == "exp" and a > 3:
                raise ValueError
            v = ev((k, ("const", a)) + ((("const", b),) if b is not None else ()), {}, "num")
            if not math.isfinite(v) or abs(v) > 50:
                raise ValueError
            return v
        v = chk(t)
        return 0.05 < abs(v) < 50
    except (ValueError, OverflowError, ZeroDivisionError):
        return False


SCALE = {"alpha": 40.0, "phi": 25.0, "tau": 4.0, "T1": 600.0, "T2": 50.0, "g": 0.02}


def gen_seq_case(r, maxlen=8, nvars=3, depth=3):
    vars_ = ["a", "b", "c", "d"][:nvars]
    values = {v: float(np.round(r.uniform(0.6, 1.8), 3)) for v in vars_}
    L = int(r.integers(2, maxlen + 1))
    program = []
    for _ in range(L):
        k = ["T", "E", "S", "T", "E", "S", "Phi", "P", "SPOILER_"][r.integers(9)]
        if k == "S":
            program.append({"op": "S", "k": int(r.integers(1, 3)) * (1 if r.random() < 0.7 else -1)})
            continue
        if k == "SPOILER_":
            continue
        exprs = {}
        for p in diffc.PARAMS[k]:
            if r.random() < 0.55:
                for _ in range(20):
                    t = gen_expr(r, vars_, depth)
                    if well_conditioned(t, values):
                        break
                else:
                    t = ("var", vars_[0])
            else:
                t = ("const", float(np.round(r.uniform(0.5, 2.0), 2)))
            exprs[p] = t
        program.append({"op": k, "exprs": exprs, "kw": bool(r.random() < 0.3)})
    return {"vars": vars_, "values": values, "program": program}


def build_sequence(case, epg):
    from epgpy import sequence as sq

    env = {v: sq.Variable(v) for v in case["vars"]}
    env["__math__"] = {"exp": sq.math.exp, "log": sq.math.log, "abs": abs}
    ops = []
    for o in case["program"]:
        if o["op"] == "S":
            ops.append(sq.S(o["k"]))
            continue
        args = {}
        for p, t in o["exprs"].items():
            e = ev(t, env, "epg")
            args[p] = e * SCALE[p] if not isinstance(e, float) else e * SCALE[p]
        cls = getattr(sq, o["op"])
        names = diffc.PARAMS[o["op"]]
        if o.get("kw") and o["op"] != "P":
            ops.append(cls(**{p: args[p] for p in reversed(names)}))
        else:
            ops.append(cls(*[args[p] for p in names]))
    ops.append(sq.ADC)
    return sq.Sequence(ops)


def param_jets(case):
    """per operator: value, first and second coefficients of every parameter (independent AD)"""
    env = {v: D2(x, {v: 1.0}, {}) for v, x in case["values"].items()}
    out = []
    for o in case["program"]:
        if o["op"] == "S":
            out.append(None)
            continue
        ps = {}
        for p, t in o["exprs"].items():
            d = D2.lift(ev(t, env, "ad")) * SCALE[p]
            ps[p] = d
        out.append(ps)
    return out


def spec_lines_seq(case):
    import prog

    jets = param_jets(case)
    lines = ["case", "vars " + " ".join(case["vars"]), "init " + lib.f2b(1.0)]
    concrete = []
    for o, ps in zip(case["program"], jets):
        if o["op"] == "S":
            lines.append(f"S {o['k']} none")
            concrete.append({"op": "S", "k": o["k"]})
            continue
        names = diffc.PARAMS[o["op"]]
        c = {"op": o["op"]}
        c.update({p: ps[p].v for p in names})
        concrete.append(c)
        c1 = {}
        for p in names:
            for v, d in ps[p].g.items():
                c1.setdefault(v, {})[p] = d
        c2 = {}
        for p in names:
            for k, d in ps[p].h.items():
                c2.setdefault(k, {})[p] = d
        lines.append(prog.to_line(c) + diffc.decl_tokens(c1, c2, True))
    lines.append("dumpj")
    return lines, concrete


def compare_sequence(cases, epg, tol1=1e-8, tol2=1e-7):
    """Sequence.signal / jacobian / hessian vs the jet specification and vs hand-built concrete operators"""
    import prog

    lines, expect = [], []
    for case in cases:
        try:
            with warnings.catch_warnings():
                warnings.simplefilter("ignore")
                seq = build_sequence(case, epg)
                V = [v for v in case["vars"] if v in {str(x) for x in seq.variables}]
                case["used_vars"] = V
                sig, jac, hes = seq.hessian(V)(**case["values"])
                sig0 = seq.signal(**case["values"])
                sig1, jac1 = seq.jacobian(V)(**case["values"])
                # rectangular request: two different (sub)lists in arbitrary order, derived from the case itself
                r2 = np.random.default_rng(int(round(sum(case["values"].values()) * 1000)) + len(case["program"]))
                rect = None
                if V:
                    V1 = [V[i] for i in r2.permutation(len(V))[: int(r2.integers(1, len(V) + 1))]]
                    V2 = [V[i] for i in r2.permutation(len(V))[: int(r2.integers(1, len(V) + 1))]]
                    if r2.random() < 0.3:   # 'magnitude': the signal itself / first derivatives / zero
                        (V1 if r2.random() < 0.5 else V2).insert(int(r2.integers(0, 2)), "magnitude")
                    _, jr, hr = seq.hessian(V1, V2)(**case["values"])
                    rect = (V1, V2, np.asarray(jr).reshape(-1), np.asarray(hr).reshape(len(V1), len(V2)))
                case["rect"] = rect
        except Exception as exc:
            # a decay time that evaluates (own evaluation of the expressions) to a negative number must be rejected
            try:
                neg = any(np.real(c.get(p, 0)) < 0 for c in spec_lines_seq(case)[1] for p in ("tau", "T1", "T2"))
            except Exception:
                neg = False
            if neg and isinstance(exc, ValueError) and ("negative time" in str(exc) or "negative relaxation time" in str(exc)):
                expect.append(("rejected",))
                continue
            expect.append(("error", repr(exc)))
            continue
        ls, concrete = spec_lines_seq(case)
        if any(np.real(c.get(p, 0)) < 0 for c in concrete for p in ("tau", "T1", "T2") if c.get("op") in ("E", "P")):
            expect.append(("error", "a negative decay / relaxation time was accepted by the sequence"))
            continue
        lines += ls
        # hand-built concrete operators with the evaluated arguments
        try:
            ops = [prog.to_epg(c, epg) for c in concrete] + [epg.ADC]
            ref = np.asarray(epg.simulate(ops)).reshape(-1)
        except Exception as exc:
            ref = exc
        expect.append(("ok", np.asarray(sig).reshape(-1), np.asarray(jac).reshape(-1), np.asarray(hes), np.asarray(sig0).reshape(-1),
                       np.asarray(jac1).reshape(-1), ref, np.asarray(sig1).reshape(-1)))
    out = lib.run_driver(lines) if lines else []
    pos, dis, checked = 0, [], 0
    for ci, (case, ex) in enumerate(zip(cases, expect)):
        if ex[0] == "rejected":
            continue
        if ex[0] == "error":
            dis.append({"case": ci, "kind": "sequence-raised", "error": ex[1], "input": case})
            continue
        _, sig, jac, hes, sig0, jac1, ref, sig1 = ex
        j0, j1, j2, pos = diffc.parse_jets(out, pos)
        n = (j0.shape[0] - 1) // 2
        checked += 1
        problems = []
        f0 = j0[n, 0]
        if isinstance(ref, Exception):
            problems.append(("concrete build raised", repr(ref)))
        elif abs(sig[0] - ref[0]) > 1e-12 * max(1, abs(ref[0])):
            problems.append(("signal: Sequence vs hand-built concrete operators", abs(sig[0] - ref[0])))
        if abs(sig[0] - f0) > 1e-9 or abs(sig0[0] - f0) > 1e-9 or abs(sig1[0] - f0) > 1e-9:
            problems.append(("signal vs specification", abs(sig[0] - f0), complex(sig[0]), complex(sig0[0]), complex(sig1[0]), complex(f0)))
        V = case["used_vars"]
        for i, v in enumerate(V):
            exp = j1[v][n, 0]
            if abs(jac[i] - exp) > tol1 * max(1, abs(exp)) or abs(jac1[i] - exp) > tol1 * max(1, abs(exp)):
                problems.append((f"jacobian [{v}]", abs(jac[i] - exp)))
        H = hes.reshape(len(V), len(V))
        for i, a in enumerate(V):
            for j, b in enumerate(V):
                exp = j2[diffc.pair(a, b)][n, 0]
                if abs(H[i, j] - exp) > tol2 * max(1, abs(exp)):
                    problems.append((f"hessian [{a},{b}]", abs(H[i, j] - exp), complex(H[i, j]), complex(exp)))
        rect = case.pop("rect", None)
        if rect is not None:
            V1, V2, jr, hr = rect
            M = "magnitude"
            for i, a in enumerate(V1):
                exp = f0 if a == M else j1[a][n, 0]
                if abs(jr[i] - exp) > tol1 * max(1, abs(exp)):
                    problems.append((f"hessian({V1},{V2}): jacobian [{a}]", abs(jr[i] - exp)))
                for j, b in enumerate(V2):
                    exp = 0.0 if (a == M and b == M) else (j1[b][n, 0] if a == M else (j1[a][n, 0] if b == M else j2[diffc.pair(a, b)][n, 0]))
                    if abs(hr[i, j] - exp) > tol2 * max(1, abs(exp)):
                        problems.append((f"hessian({V1},{V2}) entry [{a},{b}]", abs(hr[i, j] - exp), complex(hr[i, j]), complex(exp)))
        if problems:
            dis.append({"case": ci, "kind": "sequence-vs-jets", "problems": problems, "input": case,
                        "expected_by": "Model.Jet with parameter jets from the harness's own forward-mode AD of the expressions"})
    return checked, dis


# ---------------------------------------------------------------------------
# correspondence `expr`: Expression eval / derive / map vs the Lean model `SE`

FN = {"add": "add", "sub": "sub", "mul": "mul", "div": "div", "neg": "neg", "exp": "exp", "log": "log", "abs": "abs",
      "pow": "pow"}


def prefix(t):
    k = t[0]
    if k == "var":
        return f"v {t[1]}"
    if k == "const":
        return f"c {lib.f2b(t[1])}"
    if k == "pow2":
        return f"f2 pow {prefix(t[1])} c {lib.f2b(2.0)}"
    if k == "powc":
        return f"f2 pow {prefix(t[1])} c {lib.f2b(1.5)}"
    if len(t) == 2:
        return f"f1 {FN[k]} {prefix(t[1])}"
    return f"f2 {FN[k]} {prefix(t[1])} {prefix(t[2])}"


def to_expression(t, sq):
    env = {}

    class V(dict):
        def __missing__(self, k):
            self[k] = sq.Variable(k)
            return self[k]

    env = V()
    env["__math__"] = {"exp": sq.math.exp, "log": sq.math.log, "abs": abs}
    e = ev(t, env, "epg")
    return e if isinstance(e, sq.Expression) else sq.Constant(e)


def compare_expr(r, ncase, depth=4):
    """random expression trees: value, first derivatives, second derivatives, substitution"""
    from epgpy import sequence as sq

    vars_ = ["a", "b", "c"]
    lines, expect, cases = [], [], []
    for _ in range(ncase):
        values = {v: float(np.round(r.uniform(0.6, 1.8), 3)) for v in vars_}
        for _ in range(30):
            t = gen_expr(r, vars_, depth)
            if well_conditioned(t, values):
                break
        else:
            continue
        e = to_expression(t, sq)
        envtok = " ".join(f"{v}={lib.f2b(x)}" for v, x in values.items())
        reqs = [("-", lambda: e(**values))]
        for v in vars_:
            reqs.append((v, lambda v=v: e.derive(v, **values)))
        a, b = vars_[r.integers(3)], vars_[r.integers(3)]
        reqs.append((f"{a},{b}", lambda: e.derive(a).derive(b, **values)))
        # substitution: c := a*b  then evaluate
        sub = ("mul", ("var", "a"), ("var", "b"))
        for dv, fn in reqs:
            try:
                with warnings.catch_warnings():
                    warnings.simplefilter("ignore")
                    val = float(np.real(fn()))
                out = ("ok", val)
            except Exception as exc:
                out = ("raised", type(exc).__name__ + ": " + str(exc)[:60])
            lines.append(f"sexpr {dv} {envtok} | {prefix(t)}")
            expect.append((out, dv, t, values))
        try:
            if not well_conditioned(t, dict(values, c=values["a"] * values["b"])):
                raise ValueError("substituted value leaves the domain")
            mapped = e.map({"c": to_expression(sub, sq)})
            val = float(np.real(mapped(**values)))
            lines.append(f"sexpr - c={lib.f2b(values['a'] * values['b'])} {envtok} | {prefix(t)}")
            expect.append((("ok", val), "map c:=a*b", t, values))
        except Exception as exc:
            pass
        cases.append(t)
    out = lib.run_driver(lines) if lines else []
    dis = []
    for ln, (res, dv, t, values) in zip(out, expect):
        toks = ln.split()
        model = None if toks[1] == "none" else lib.b2f(toks[1])
        if res[0] == "ok" and not math.isfinite(res[1]):
            continue  # evaluated outside the domain (nan/inf): not a case of the property
        if res[0] == "raised":
            if model is not None:
                dis.append({"kind": "expr-vs-model", "problems": [(f"derive {dv}: epgpy raised {res[1]} but the model returns a value",)],
                            "input": {"expr": t, "values": values, "derive": dv}})
            continue
        if model is None or not (abs(model - res[1]) <= 1e-9 * max(1.0, abs(res[1]))):
            dis.append({"kind": "expr-vs-model", "problems": [(f"derive {dv}", None if model is None else abs(model - res[1]))],
                        "input": {"expr": t, "values": values, "derive": dv}, "epgpy": res[1], "model": model})
    return len(expect), dis, cases


# ---------------------------------------------------------------------------------------------
# sharing patterns: the same virtual operator object reused, distinct operators that look alike
# (same positional arguments, different keyword-only options or array constants of one shape),
# repeat() mappings -- signal() and jacobian() against hand-built concrete operators
# ---------------------------------------------------------------------------------------------
def search_sharing(r, epg, ncase):
    import warnings
    from epgpy import sequence as sq

    dis, checked = [], 0
    dist = {"shared_object": 0, "lookalike_kw": 0, "lookalike_array": 0, "repeat": 0}
    for _ in range(ncase):
        vals = {"T2": float(r.uniform(20, 80)), "ph": float(r.uniform(-170, 170)), "att": float(r.uniform(0.6, 1.2)),
                "r0": float(r.uniform(0.1, 1.0))}
        desc = []  # (virtual factory, concrete factory) closures recorded as tuples for the replay
        mode = ["kw", "array", "shared", "repeat"][r.integers(4)]
        plan = [("T", 90.0, 90.0)]
        nblk = int(r.integers(2, 5))
        if mode == "kw":
            dist["lookalike_kw"] += 1
            for i in range(nblk):
                plan.append(("E", float(r.choice([4.0, 5.0])), 1000.0, "T2"))
                u = r.random()
                if u < 0.5:
                    plan.append(("ADCP", [0.0, "ph", float(np.round(r.uniform(-90, 90), 1))][r.integers(3)]))
                else:
                    plan.append(("R", 0.05, 0.002, ["r0", float(np.round(r.uniform(0.1, 1), 2)), None][r.integers(3)]))
                    plan.append(("ADCP", None))
        elif mode == "array":
            dist["lookalike_array"] += 1
            n = int(r.integers(2, 4))
            for i in range(nblk):
                plan.append(("Tatt", 30.0))
                plan.append(("Earr", np.round(r.uniform(2, 15, size=n), 2).tolist(), 1000.0, "T2"))
                plan.append(("ADCP", None))
        elif mode == "shared":
            dist["shared_object"] += 1
            plan.append(("SHARED_E", float(r.uniform(3, 9)), 1000.0, "T2", nblk))
        else:
            dist["repeat"] += 1
            n = int(r.integers(2, 4))
            taus = [np.round(r.uniform(2, 15, size=n), 2).tolist() for _ in range(nblk)] if r.random() < 0.5 else \
                [float(np.round(r.uniform(2, 15), 2)) for _ in range(nblk)]
            plan.append(("REPEAT", taus))

        def virtual():
            ops = []
            for p in plan:
                if p[0] == "T":
                    ops.append(sq.T(p[1], p[2]))
                elif p[0] == "Tatt":
                    ops.append(sq.T(p[1] * sq.Variable("att"), 0))
                elif p[0] == "E":
                    ops.append(sq.E(p[1], p[2], p[3]))
                elif p[0] == "Earr":
                    ops.append(sq.E(np.array(p[1]), p[2], p[3]))
                elif p[0] == "R":
                    ops.append(sq.R(p[1], p[2]) if p[3] is None else sq.R(p[1], p[2], r0=p[3]))
                elif p[0] == "ADCP":
                    ops.append(sq.Adc() if p[1] is None else sq.Adc(phase=p[1]))
                elif p[0] == "SHARED_E":
                    e = sq.E(p[1], p[2], p[3])
                    rf = sq.T(20 * sq.Variable("att"), 0)
                    for _ in range(p[4]):
                        ops += [rf, e, sq.S(1), sq.ADC]
                elif p[0] == "REPEAT":
                    block = [sq.T(30 * sq.Variable("att"), 0), sq.E("tau", 1e3, "T2"), sq.ADC]
                    ops += sq.repeat(block, len(p[1]), tau=[np.array(t) if isinstance(t, list) else t for t in p[1]])
            return sq.Sequence(ops)

        def concrete(v):
            ops = []
            for p in plan:
                if p[0] == "T":
                    ops.append(epg.T(p[1], p[2]))
                elif p[0] == "Tatt":
                    ops.append(epg.T(p[1] * v["att"], 0))
                elif p[0] == "E":
                    ops.append(epg.E(p[1], p[2], v[p[3]]))
                elif p[0] == "Earr":
                    ops.append(epg.E(np.array(p[1]), p[2], v[p[3]]))
                elif p[0] == "R":
                    r0 = p[3]
                    ops.append(epg.R(p[1], p[2]) if r0 is None else epg.R(p[1], p[2], r0=v[r0] if isinstance(r0, str) else r0))
                elif p[0] == "ADCP":
                    ph = p[1]
                    ops.append(epg.Adc() if ph is None else epg.Adc(phase=v[ph] if isinstance(ph, str) else ph))
                elif p[0] == "SHARED_E":
                    for _ in range(p[4]):
                        ops += [epg.T(20 * v["att"], 0), epg.E(p[1], p[2], v[p[3]]), epg.S(1), epg.ADC]
                elif p[0] == "REPEAT":
                    for t in p[1]:
                        ops += [epg.T(30 * v["att"], 0), epg.E(np.array(t) if isinstance(t, list) else t, 1e3, v["T2"]), epg.ADC]
            return np.moveaxis(np.asarray(epg.simulate(ops, asarray=True)), 0, -1)

        try:
            with warnings.catch_warnings():
                warnings.simplefilter("ignore")
                seq = virtual()
                used = sorted(str(x) for x in seq.variables)
                v = {k: vals[k] for k in used}
                sig = np.asarray(seq.signal(**v))
                ref = concrete(vals)
                probs = []
                if sig.shape != ref.shape or not np.allclose(sig, ref, atol=1e-10):
                    probs.append(("signal differs from the hand-built concrete operators", sig.tolist(), ref.tolist()))
                else:
                    diffvars = [k for k in used if k in ("T2", "att")]
                    if diffvars:
                        _, jac = seq.jacobian(diffvars, **v)
                        jac = np.asarray(jac)
                        for i, k in enumerate(diffvars):
                            h = 1e-5 * max(1.0, abs(vals[k]))
                            fd = (concrete({**vals, k: vals[k] + h}) - concrete({**vals, k: vals[k] - h})) / (2 * h)
                            if jac[..., i].shape != fd.shape or not np.allclose(jac[..., i], fd, rtol=1e-5, atol=1e-8):
                                probs.append((f"jacobian w.r.t. {k} differs from finite differences of the hand-built sequence",
                                              jac[..., i].tolist(), fd.tolist()))
                                break
        except Exception as exc:
            dis.append({"kind": "c11-sharing", "problems": [("raised", repr(exc))], "input": {"plan": plan, "values": vals}})
            continue
        checked += 1
        if probs:
            dis.append({"kind": "c11-sharing", "problems": probs, "input": {"plan": plan, "values": vals}})
    return checked, dis, dist


# ---------------------------------------------------------------------------
# correspondence `bind`: VirtualOperator.__init__ argument binding vs the Lean model `Bind.bindPos`

def compare_bind(r, epg, ncase):
    """every virtual operator class, a random number of positional arguments and a random subset of the remaining
    positional names given as keywords in random order (possibly leaving a gap): the list `op.positionals` vs the model,
    and construction fails exactly when a keyword is left that is neither a keyword nor an option of the class"""
    from epgpy import sequence as sq

    classes = [c for c in ("T", "E", "P", "R", "S", "D", "X", "Phi", "PD", "Wait", "Offset") if hasattr(sq, c)]
    lines, expect = [], []
    for _ in range(ncase):
        cname = classes[r.integers(len(classes))]
        cls = getattr(sq, cname)
        P = list(cls.POSITIONALS)
        n = int(r.integers(0, len(P) + 1))
        rest = P[n:]
        given = [k for k in rest if r.random() < 0.75]
        order = [given[i] for i in r.permutation(len(given))]
        args = [1000.0 + i for i in range(n)]
        kwargs = {k: 2000.0 + P.index(k) for k in order}
        try:
            op = cls(*args, **kwargs)
            got = []
            for e in op.positionals:
                v = float(e())
                got.append(f"#{int(v - 1000)}" if v < 2000 else P[int(v - 2000)])
            res = ("ok", got, sorted(set(op.keywords) | {k for k in op.options}))
        except Exception as exc:
            res = ("err", type(exc).__name__, None)
        lines.append(f"vbind {','.join(P)} {n} {','.join(order) if order else '-'}")
        expect.append((cname, P, n, order, res, list(cls.KEYWORDS), list(cls.OPTIONS)))
    out = lib.run_driver(lines) if lines else []
    dis, checked = [], 0
    for (cname, P, n, order, res, KW, OPT), line in zip(expect, out):
        checked += 1
        model = [t for t in line.split(" ", 1)[1].split(",") if t] if " " in line else []
        leftover = [k for k in order if k not in model]
        allowed = set(KW) | {o for o in OPT if isinstance(o, str)}
        must_fail = (Ellipsis not in OPT and None not in OPT) and any(k not in allowed for k in leftover)
        problems = []
        if res[0] == "ok":
            if res[1] != model:
                problems.append(("positionals bound differently from the model (epgpy, model)", res[1], model))
            if must_fail:
                problems.append(("keywords left over that the class does not know, yet construction succeeded", leftover))
        elif not must_fail:
            problems.append(("construction raised although every keyword is a parameter of the class", res[1], leftover))
        if problems:
            dis.append({"kind": "bind-vs-model", "problems": problems, "input": {"class": cname, "positionals": P, "nargs": n, "keywords": order}})
    return checked, dis
