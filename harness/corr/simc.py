"""Correspondence `sim` (C12): `Model/Sim` (simulate / get_adc_times / modify over the operator model)
vs epgpy.simulate(adc_time=True, probe=...), get_adc_times and modify on timed sequences with any
number of heterogeneous ADC probes; plus a defining-formula search on batched sequences (manual
stepping of the real operators, weights/reduce/phase applied by hand)."""
import collections
import warnings

import numpy as np

import lib
import prog
from lib import f2b

ATTRS = ["F0", "Z0", "F", "Z"]
TIMED = ["T", "Phi", "E", "P", "R", "S", "WAIT", "OFFSET", "SPOILER"]


def gen_adc(r, allow_phase=True):
    a = {"kind": "adc", "attr": ATTRS[r.integers(4)], "w": None, "reduce": None, "phase": None}
    if r.random() < 0.4:
        a["w"] = float(r.uniform(-2, 2))
    if r.random() < 0.4:
        a["reduce"] = bool(r.random() < 0.7)
    if allow_phase and r.random() < 0.6:
        a["phase"] = prog.pick(r, -180, 180, (0.0, 90.0))
    return a


def gen_item(r):
    kind = TIMED[r.integers(len(TIMED))]
    if kind == "OFFSET":
        return {"kind": "op", "o": {"op": "OFFSET"}, "dur": float(r.uniform(-3, 3))}
    o = prog.gen_op(r, kind)
    u = r.random()
    if kind == "WAIT":
        dur = float(r.uniform(0, 10))
        o["duration"] = dur
    elif kind in ("E", "P") and u < 0.4:
        dur = "tau"
    elif kind == "SPOILER" or u < 0.7:
        dur = None
    else:
        dur = prog.pick(r, 0.0, 10.0, (0.0,))
    return {"kind": "op", "o": o, "dur": dur}


def item_dur(it):
    if it["kind"] == "adc":
        return 0.0
    if it["dur"] == "tau":
        return float(it["o"]["tau"])
    return 0.0 if it["dur"] is None else float(it["dur"])


def gen_case(r, maxlen=25):
    st, pd = prog.gen_init(r)
    n = int(r.integers(1, maxlen + 1))
    items = []
    for _ in range(n):
        items.append(gen_adc(r) if r.random() < 0.3 else gen_item(r))
    if not any(it["kind"] == "adc" for it in items):
        items.insert(int(r.integers(0, len(items) + 1)), gen_adc(r))
    probes = None
    if r.random() < 0.5:
        probes = [None if r.random() < 0.3 else gen_adc(r) for _ in range(int(r.integers(1, 4)))]
    modify = None
    if r.random() < 0.5:
        modify = {k: None for k in ("T1", "T2", "g", "att")}
        u = r.random()
        if u < 0.5:
            modify["T1"], modify["T2"] = prog.pick(r, 100, 2000), prog.pick(r, 10, 100)
        elif u < 0.65:
            modify["T2"] = prog.pick(r, 10, 100)
        elif u < 0.75:
            modify["T1"] = prog.pick(r, 100, 2000)
        if r.random() < 0.5:
            modify["g"] = prog.pick(r, -0.2, 0.2)
        if r.random() < 0.5:
            modify["att"] = 1.0 if r.random() < 0.2 else prog.pick(r, 0.3, 1.5)
    return {"init": (st, pd), "items": items, "probes": probes, "modify": modify}


def build_adc(a, epg):
    kw = {}
    if a["w"] is not None:
        kw["weights"] = a["w"]
    if a["reduce"] is not None:
        kw["reduce"] = a["reduce"]
    if a["phase"] is not None:
        kw["phase"] = a["phase"]
    return epg.Adc(a["attr"], **kw)


def build_item(it, epg):
    if it["kind"] == "adc":
        return build_adc(it, epg)
    o = it["o"]
    if o["op"] == "OFFSET":
        return epg.Offset(it["dur"])
    if o["op"] in ("WAIT", "SPOILER"):
        return prog.to_epg(o, epg)
    kw = {}
    if it["dur"] == "tau":
        kw["duration"] = True
    elif it["dur"] is not None:
        kw["duration"] = it["dur"]
    if o["op"] == "S":
        return epg.S(int(o["k"]), **kw)
    return prog.to_epg(o, epg, **kw)


def flat(v):
    return np.asarray(v, dtype=complex).reshape(-1)


def run_epg(case, epg):
    st, pd = case["init"]
    seq = [build_item(it, epg) for it in case["items"]]
    if case["modify"] is not None:
        seq = epg.modify(seq, **{k: v for k, v in case["modify"].items() if v is not None})
    init = epg.StateMatrix(density=pd) if st is None else epg.StateMatrix(np.asarray(st), density=pd)
    probes = case["probes"]
    kw = {}
    if probes is not None:
        kw["probe"] = [None if p is None else build_adc(p, epg) for p in probes]
    times, values = epg.simulate(seq, adc_time=True, asarray=False, init=init, **kw)
    nprobe = 1 if probes is None else len(probes)
    if nprobe == 1:
        values = (values,)
    nent = len(times)
    entries = [(float(np.asarray(times[i])), [flat(values[p][i]) for p in range(nprobe)]) for i in range(nent)]
    adc_times = [float(np.asarray(t)) for t in epg.get_adc_times(seq)]
    return entries, adc_times


def adc_toks(a):
    w = "none none" if a["w"] is None else f"{f2b(a['w'])} {f2b(0.0)}"
    red = "1" if a["reduce"] is True else "0"
    ph = "none" if a["phase"] is None else f2b(a["phase"])
    return f"{a['attr']} {w} {red} {ph}"


def lines_for(case):
    st, pd = case["init"]
    lines = ["case", prog.init_line(None if st is None else np.asarray(st), pd)]
    for it in case["items"]:
        if it["kind"] == "adc":
            lines.append(f"sadc {f2b(0.0)} {adc_toks(it)}")
        elif it["o"]["op"] == "OFFSET":
            lines.append(f"sop {f2b(it['dur'])} WAIT")
        else:
            lines.append(f"sop {f2b(item_dur(it))} {prog.to_line(it['o'])}")
    for p in case["probes"] or []:
        lines.append("sprobe none" if p is None else f"sprobe {adc_toks(p)}")
    if case["modify"] is not None:
        m = case["modify"]
        lines.append("smodify " + " ".join("none" if m[k] is None else f2b(m[k]) for k in ("T1", "T2", "g", "att")))
    lines.append("simrun")
    return lines


def parse_sim(out, pos):
    head = out[pos].split()
    assert head[0] == "sim", out[pos]
    n = int(head[1]); pos += 1
    entries = []
    for _ in range(n):
        parts = out[pos].split("|"); pos += 1
        t = lib.b2f(parts[0].split()[1])
        vals = []
        for p in parts[1:]:
            toks = p.split()
            vals.append(np.array([complex(lib.b2f(toks[2 * i]), lib.b2f(toks[2 * i + 1])) for i in range(len(toks) // 2)]))
        entries.append((t, vals))
    toks = out[pos].split(); pos += 1
    assert toks[0] == "times"
    return entries, [lib.b2f(t) for t in toks[1:]], pos


def compare(cases, epg, tol=1e-9):
    lines, expect = [], []
    for case in cases:
        try:
            with warnings.catch_warnings():
                warnings.simplefilter("ignore")
                expect.append(run_epg(case, epg))
        except Exception as exc:
            expect.append(("error", repr(exc)))
            continue
        lines += lines_for(case)
    out = lib.run_driver(lines) if lines else []
    pos, dis, checked = 0, [], 0
    dist = {"entries": 0, "probe_override": 0, "modify": 0, "nonzero_times": 0}
    for ci, (case, ex) in enumerate(zip(cases, expect)):
        if ex[0] == "error":
            dis.append({"kind": "sim-epgpy-raised", "problems": [ex[1]], "input": case})
            continue
        entries, adc_times = ex
        ment, mtimes, pos = parse_sim(out, pos)
        checked += 1
        dist["entries"] += len(entries)
        dist["probe_override"] += case["probes"] is not None
        dist["modify"] += case["modify"] is not None
        dist["nonzero_times"] += sum(1 for t, _ in entries if t != 0)
        probs = []
        if len(ment) != len(entries):
            probs.append(("number of entries", len(entries), len(ment)))
        else:
            for i, ((t, vals), (mt, mvals)) in enumerate(zip(entries, ment)):
                if abs(t - mt) > 1e-9 * (1 + abs(mt)):
                    probs.append(("time of entry", i, t, mt)); break
                if len(vals) != len(mvals):
                    probs.append(("number of recorded values", i, len(vals), len(mvals))); break
                bad = False
                for p, (v, mv) in enumerate(zip(vals, mvals)):
                    if v.shape != mv.shape or np.max(np.abs(v - mv), initial=0) > tol:
                        probs.append(("recorded value", i, p, v.tolist(), mv.tolist())); bad = True; break
                if bad:
                    break
        if len(adc_times) != len(mtimes) or any(abs(a - b) > 1e-9 * (1 + abs(b)) for a, b in zip(adc_times, mtimes)):
            probs.append(("get_adc_times", adc_times, mtimes))
        if probs:
            dis.append({"kind": "model-vs-epgpy simulate", "problems": probs, "input": case})
    return checked, dis, dist


# ---------------------------------------------------------------------------------------------
# defining-formula search on the real code: batched sequences, array weights/phases/durations
# ---------------------------------------------------------------------------------------------
def search_batched(r, epg, ncase):
    dis, checked = [], 0
    dist = {"array_duration": 0, "array_weights": 0, "array_phase": 0, "modify_expand": 0, "entries": 0}
    for _ in range(ncase):
        batch = [(2,), (3,), (2, 3), (1,)][r.integers(4)]
        nb = len(batch)
        desc = []
        L = int(r.integers(2, 14))
        for _ in range(L):
            u = r.random()
            if u < 0.25:
                a = {"k": "adc", "attr": ATTRS[r.integers(4)], "w": None, "reduce": None, "phase": None}
                if r.random() < 0.5:
                    wshape = batch[: int(r.integers(1, nb + 1))] if r.random() < 0.8 else ()
                    a["w"] = r.uniform(-1, 2, size=wshape).tolist() if wshape else float(r.uniform(-1, 2))
                    dist["array_weights"] += bool(wshape)
                u2 = r.random()
                if u2 < 0.2:
                    a["reduce"] = True
                elif u2 < 0.3:
                    a["reduce"] = False
                elif u2 < 0.45 and a["w"] is not None and not np.isscalar(a["w"]):
                    a["reduce"] = int(r.integers(0, np.ndim(a["w"])))
                if r.random() < 0.6:
                    # phase applies after reduction: scalar, or matching the leading axes that remain
                    a["phase"] = "pending"
                desc.append(a)
            elif u < 0.5:
                al = r.uniform(10, 170, size=batch).tolist() if r.random() < 0.5 else float(r.uniform(10, 170))
                d = None
                if r.random() < 0.4:
                    d = r.uniform(0, 3, size=batch).tolist() if r.random() < 0.4 else float(r.uniform(0, 3))
                    dist["array_duration"] += not np.isscalar(d)
                desc.append({"k": "T", "alpha": al, "phi": float(r.uniform(-90, 90)), "dur": d})
            elif u < 0.75:
                tau = r.uniform(1, 10, size=batch[-1:] if nb == 1 else batch).tolist() if r.random() < 0.4 else float(r.uniform(1, 10))
                T2 = r.uniform(10, 100, size=batch).tolist() if r.random() < 0.5 else float(r.uniform(10, 100))
                desc.append({"k": "E", "tau": tau, "T1": float(r.uniform(200, 1500)), "T2": T2, "g": float(r.uniform(-0.1, 0.1)),
                             "dur": "tau" if r.random() < 0.5 else None})
                dist["array_duration"] += desc[-1]["dur"] == "tau" and not np.isscalar(tau)
            elif u < 0.9:
                desc.append({"k": "S", "kk": int(r.integers(1, 3)), "dur": float(r.uniform(0, 4)) if r.random() < 0.5 else None})
            else:
                desc.append({"k": "W", "dur": float(r.uniform(0, 5))})
        if not any(d["k"] == "adc" for d in desc):
            desc.append({"k": "adc", "attr": "F0", "w": None, "reduce": None, "phase": None})

        def mk(d):
            if d["k"] == "T":
                return epg.T(d["alpha"], d["phi"], **({} if d["dur"] is None else {"duration": np.asarray(d["dur"])}))
            if d["k"] == "E":
                return epg.E(d["tau"], d["T1"], d["T2"], d["g"], **({"duration": True} if d["dur"] == "tau" else {}))
            if d["k"] == "S":
                return epg.S(d["kk"], **({} if d["dur"] is None else {"duration": d["dur"]}))
            if d["k"] == "W":
                return epg.Wait(d["dur"])
            raise ValueError

        def dur_of(d):
            if d["k"] == "adc":
                return 0
            if d["k"] == "E":
                return np.asarray(d["tau"]) if d["dur"] == "tau" else 0
            return 0 if d["dur"] is None else np.asarray(d["dur"])

        try:
            with warnings.catch_warnings():
                warnings.simplefilter("ignore")
                # reference by manual stepping
                sm = epg.StateMatrix(shape=batch)
                tic, ref, seq = 0, [], []
                for d in desc:
                    if d["k"] != "adc":
                        op = mk(d)
                        seq.append(op)
                        sm = op(sm, inplace=True)
                        tic = tic + dur_of(d)
                        continue
                    arr = np.array(getattr(sm, d["attr"]))
                    if d["w"] is not None:
                        w = np.asarray(d["w"])
                        arr = arr * (w.reshape(w.shape + (1,) * (arr.ndim - w.ndim)) if w.ndim else w)
                    red = d["reduce"]
                    if d["w"] is not None and red is None:
                        red = tuple(range(max(np.ndim(d["w"]), 1)))
                    if red is True:
                        arr = arr.sum()
                    elif red is not None and red is not False:
                        arr = arr.sum(axis=red)
                    if d["phase"] == "pending":
                        if arr.ndim and r.random() < 0.5:
                            pshape = arr.shape[: int(r.integers(1, arr.ndim + 1))]
                            d["phase"] = r.uniform(-180, 180, size=pshape).tolist()
                            dist["array_phase"] += 1
                        else:
                            d["phase"] = float(r.uniform(-180, 180))
                    if d["phase"] is not None:
                        ph = np.exp(1j * np.asarray(d["phase"]) * np.pi / 180)
                        arr = arr * (ph.reshape(ph.shape + (1,) * (arr.ndim - ph.ndim)) if ph.ndim else ph)
                    kw = {k2: d[k] for k, k2 in (("w", "weights"), ("reduce", "reduce"), ("phase", "phase")) if d[k] is not None}
                    seq.append(epg.Adc(d["attr"], **kw))
                    ref.append((np.array(tic, dtype=float), np.array(arr)))
                times, vals = epg.simulate(seq, adc_time=True, asarray=False, init=epg.StateMatrix(shape=batch))
                adct = epg.get_adc_times(seq)
        except Exception as exc:
            dis.append({"kind": "c12-batched", "problems": [("raised", repr(exc))], "input": {"batch": batch, "seq": desc}})
            continue
        checked += 1
        dist["entries"] += len(ref)
        probs = []
        if len(times) != len(ref) or len(vals) != len(ref):
            probs.append(("number of entries", len(times), len(ref)))
        else:
            for i, (t, v) in enumerate(ref):
                if not np.allclose(np.asarray(times[i], dtype=float), t, atol=1e-12) or not np.allclose(np.asarray(adct[i], dtype=float), t, atol=1e-12):
                    probs.append(("acquisition time is not the cumulative sum of durations", i, np.asarray(times[i]).tolist(), t.tolist())); break
                got = np.asarray(vals[i])
                if got.shape != v.shape or not np.allclose(got, v, atol=1e-10):
                    probs.append(("recorded value differs from attr*weights, reduced, times exp(i*phase)", i, got.tolist(), v.tolist())); break
        if probs:
            dis.append({"kind": "c12-batched", "problems": probs, "input": {"batch": batch, "seq": desc}})
    return checked, dis, dist


def search_modify(r, epg, ncase):
    """modify(seq, T1, T2, g, att) with scalar/array parameters, expand on/off: timing unchanged and simulation equal to
    the hand-built sequence with an evolution after every operator of positive duration"""
    dis, checked = [], 0
    dist = {"expand": 0, "noexpand": 0, "array_params": 0, "batched_seq": 0}
    for _ in range(ncase):
        seqbatch = [None, None, (2,), (3,), (1, 3), (2, 2)][r.integers(6)]
        desc = []
        for _ in range(int(r.integers(2, 10))):
            u = r.random()
            if u < 0.35:
                al = r.uniform(10, 170, size=seqbatch).tolist() if seqbatch and r.random() < 0.6 else float(r.uniform(10, 170))
                desc.append(("T", al, float(r.uniform(-90, 90)), [None, 0.0, float(r.uniform(0.1, 3))][r.integers(3)]))
            elif u < 0.65:
                desc.append(("S", int(r.integers(1, 3)), [None, 0.0, float(r.uniform(0.1, 5))][r.integers(3)]))
            elif u < 0.8:
                desc.append(("W", float(r.uniform(0, 5))))
            else:
                desc.append(("ADC", ATTRS[r.integers(2)]))
        desc.append(("ADC", "F0"))
        expand = bool(r.random() < 0.6)
        params = {}
        def val(lo, hi):
            u = r.random()
            if u < 0.5:
                return float(r.uniform(lo, hi))
            if expand:
                return r.uniform(lo, hi, size=[(2,), (3,), (2, 2), (1, 3)][r.integers(4)]).tolist()
            if seqbatch:
                return r.uniform(lo, hi, size=seqbatch).tolist()
            return r.uniform(lo, hi, size=(3,)).tolist()
        u = r.random()
        if u < 0.6:
            params["T1"], params["T2"] = val(200, 1500), val(10, 100)
        elif u < 0.75:
            params["T2"] = val(10, 100)
        elif u < 0.85:
            params["T1"] = val(200, 1500)
        if r.random() < 0.5 or not params:
            params["g"] = val(-0.1, 0.1)
        if r.random() < 0.4:
            params["att"] = val(0.5, 1.2)
        arrs = [np.asarray(v) for v in params.values()]
        pnd = max(a.ndim for a in arrs)
        try:  # epgpy aligns parameters on their leading axes
            np.broadcast_shapes(*[a.shape + (1,) * (pnd - a.ndim) for a in arrs if a.ndim])
        except ValueError:
            continue  # parameters not broadcastable together: rejected by modify (C20), not this property
        dist["expand" if expand else "noexpand"] += 1
        dist["array_params"] += any(a.ndim for a in arrs)
        dist["batched_seq"] += seqbatch is not None

        def mk(d, att=None):
            if d[0] == "T":
                al = d[1]
                if att is not None:  # leading-axes alignment (epgpy's convention)
                    al, att = np.asarray(al), np.asarray(att)
                    nd = max(al.ndim, att.ndim)
                    al = al.reshape(al.shape + (1,) * (nd - al.ndim)) * att.reshape(att.shape + (1,) * (nd - att.ndim))
                return epg.T(al, d[2], **({} if d[3] is None else {"duration": d[3]}))
            if d[0] == "S":
                return epg.S(d[1], **({} if d[2] is None else {"duration": d[2]}))
            if d[0] == "W":
                return epg.Wait(d[1])
            return epg.Adc(d[1])

        try:
            with warnings.catch_warnings():
                warnings.simplefilter("ignore")
                seq = [mk(d) for d in desc]
                sshape = epg.getshape(seq)
                nseq = len(sshape) if (len(sshape) > 1 or sshape[0] > 1) else 0
                # parameters live on new trailing axes when expand, else are aligned with the sequence's leading axes
                def place(v):
                    a = np.asarray(v, dtype=float)
                    if a.ndim == 0:
                        return a
                    a = a.reshape(a.shape + (1,) * (pnd - a.ndim))  # parameters aligned together on leading axes
                    if not expand or nseq == 0:
                        return a
                    return a.reshape((1,) * nseq + a.shape)
                P = {k: place(v) for k, v in params.items()}
                ref = []
                for d in desc:
                    op = mk(d, P.get("att") if d[0] == "T" else None)
                    ref.append(op)
                    dur = op.duration
                    if np.any(np.asarray(dur) > 0):
                        if "T1" in P or "T2" in P:
                            ref.append(epg.E(dur, P.get("T1", 1e10), P.get("T2", 1e10), P.get("g", 0)))
                        elif "g" in P:
                            ref.append(epg.P(dur, P["g"]))
                t_ref, v_ref = epg.simulate(ref, adc_time=True, asarray=False)
                mod = epg.modify(seq, expand=expand, **params)
                t_mod, v_mod = epg.simulate(mod, adc_time=True, asarray=False)
                t_orig = epg.get_adc_times(seq)
        except Exception as exc:
            dis.append({"kind": "c12-modify", "problems": [("raised", repr(exc))], "input": {"seq": desc, "params": params, "expand": expand}})
            continue
        checked += 1
        probs = []
        if len(t_mod) != len(t_orig) or any(not np.allclose(a, b, atol=1e-12) for a, b in zip(t_mod, t_orig)):
            probs.append(("modify() changed the timing", [np.asarray(t).tolist() for t in t_mod], [np.asarray(t).tolist() for t in t_orig]))
        for i, (a, b) in enumerate(zip(v_mod, v_ref)):
            a, b = np.asarray(a), np.asarray(b)
            try:
                same = np.allclose(np.broadcast_arrays(a, b)[0], np.broadcast_arrays(a, b)[1], atol=1e-10) and a.size == b.size
            except ValueError:
                same = False
            if not same:
                probs.append(("modified sequence differs from explicit evolutions", i, a.tolist(), b.tolist())); break
        if probs:
            dis.append({"kind": "c12-modify", "problems": probs, "input": {"seq": desc, "params": params, "expand": expand}})
    return checked, dis, dist


def search_snapshots(r, epg, ncase):
    """every recorded value is the requested quantity of the state AT THAT POINT, also for probes returning several
    quantities (tuple / list / callable) and whatever in-place operators follow: simulate() vs stepping the operators
    out-of-place by hand and reading F0 / Z0 / F / Z at each probe position"""
    dis, checked = [], 0
    dist = collections.Counter()
    forms = ["(F0, Z0)", "[F0, Z0]", "F0, Z0", "callable", "(F, Z)", "probe=(F0, Z0)", "probe=[F0,Z0] list"]
    for _ in range(ncase):
        form = forms[r.integers(len(forms))]
        dist[form] += 1
        nblk = int(r.integers(2, 6))
        plan = []
        for _ in range(nblk):
            for _ in range(int(r.integers(1, 4))):
                k = ["T", "E", "Phi", "S", "SPOILER", "P"][r.integers(6)] if r.random() < 0.8 else "T"
                if k == "S" and r.random() < 0.6:
                    k = "E"      # few shifts: the state array is then not re-allocated between acquisitions
                plan.append((k, [float(r.uniform(20, 160)), float(r.uniform(-90, 90)), float(r.uniform(2, 12))]))
            plan.append(("ADC", None))

        def op_of(k, v):
            if k == "T":
                return epg.T(v[0], v[1])
            if k == "E":
                return epg.E(v[2], 700.0, 60.0, 0.02)
            if k == "P":
                return epg.P(v[2], 0.03)
            if k == "Phi":
                return epg.Phi(v[1])
            if k == "S":
                return epg.S(1)
            return epg.SPOILER

        def probe_op():
            if form == "callable":
                return epg.Probe(lambda sm: (sm.F0, sm.Z0))
            if form.startswith("probe="):
                return epg.ADC
            return epg.Probe(form)

        try:
            with warnings.catch_warnings():
                warnings.simplefilter("ignore")
                seq = [probe_op() if k == "ADC" else op_of(k, v) for k, v in plan]
                if form == "probe=(F0, Z0)":
                    res = epg.simulate(seq, probe="(F0, Z0)")
                elif form == "probe=[F0,Z0] list":
                    res = epg.simulate(seq, probe=["F0", "Z0"])
                    res = list(zip(np.asarray(res[0]), np.asarray(res[1])))
                else:
                    res = epg.simulate(seq, asarray=False)
                # manual stepping, out of place
                sm = epg.StateMatrix()
                exp = []
                for k, v in plan:
                    if k == "ADC":
                        if form == "(F, Z)":
                            exp.append((np.array(sm.F, copy=True), np.array(sm.Z, copy=True)))
                        else:
                            exp.append((np.array(sm.F0, copy=True), np.array(sm.Z0, copy=True)))
                    else:
                        sm = op_of(k, v)(sm)
        except Exception as exc:
            dis.append({"kind": "c12-snapshots", "problems": [("raised", repr(exc)[:300])], "input": {"form": form, "plan": plan}})
            continue
        checked += 1
        problems = []
        if len(res) != len(exp):
            problems.append(("number of records", len(res), len(exp)))
        else:
            for i, (got, want) in enumerate(zip(res, exp)):
                g0, g1 = np.asarray(got[0]), np.asarray(got[1])
                if g0.shape != np.asarray(want[0]).shape and g0.size == np.asarray(want[0]).size:
                    g0, g1 = g0.reshape(np.asarray(want[0]).shape), g1.reshape(np.asarray(want[1]).shape)
                if g0.shape != np.asarray(want[0]).shape or not (np.allclose(g0, want[0], atol=1e-12) and np.allclose(g1, want[1], atol=1e-12)):
                    problems.append((f"record {i} is not the quantity at that point (recorded, state at that point)",
                                     [g0.ravel()[:3].tolist(), g1.ravel()[:3].tolist()],
                                     [np.ravel(want[0])[:3].tolist(), np.ravel(want[1])[:3].tolist()]))
                    break
        if problems:
            dis.append({"kind": "c12-snapshots", "problems": problems, "input": {"form": form, "plan": plan}})
    return checked, dis, dist
