"""Correspondence `core`: hand model (Lean `Model/Ops`) vs epgpy on 1-D programs, state by
state after every operator; plus the Bloch-ensemble specification (`Model/Bloch`) vs epgpy
on the final state (the failing-input search of C01)."""
import numpy as np
import lib
import prog


def run_epg(case, epg):
    """returns list of (n, states(2n+1,3), eq(2n+1,3)) after every operator.
    mode 'apply': operators applied one by one in place; mode 'simulate': through
    epgpy.simulate() with a state-recording probe after every operator."""
    st, pd = case["init"]
    opts = dict(case.get("options") or {})
    ops = [prog.to_epg(o, epg) for o in case["program"]]
    out = []

    def rec(sm):
        states = np.asarray(sm.states)
        eq = np.asarray(sm.equilibrium)
        assert states.shape[0] == 1 and states.ndim == 3, states.shape
        return (sm.nstate, states[0].copy(), np.broadcast_to(eq, states.shape)[0].copy())

    if case.get("mode", "apply") == "simulate":
        seq = []
        for op in ops:
            seq += [op, epg.Probe(rec)]
        if st is None:
            init = epg.StateMatrix(density=pd) if pd != 1.0 else None
        elif case.get("init_as_array") and pd == 1.0:
            init = np.asarray(st)
        else:
            init = epg.StateMatrix(np.asarray(st), density=pd)
        vals = epg.simulate(seq, init=init, asarray=False, **opts)
        vals = list(vals)
        for v in vals:
            out.append((int(v[0]), np.asarray(v[1]), np.asarray(v[2])))
        return out
    if st is None:
        sm = epg.StateMatrix(density=pd, **opts)
    else:
        sm = epg.StateMatrix(np.asarray(st), density=pd, **opts)
    for op in ops:
        sm = op(sm, inplace=True)
        out.append(rec(sm))
    return out


def lines_for(case, bloch=None):
    st, pd = case["init"]
    lines = ["case"]
    for k, v in (case.get("options") or {}).items():
        lines.append(f"opt {k} {v}")
    lines.append(prog.init_line(None if st is None else np.asarray(st), pd))
    for o in case["program"]:
        lines.append(prog.to_line(o))
        lines.append("dump")
        lines.append("dumpeq")
    if bloch:
        lines.append(f"bloch {bloch[0]} {bloch[1]}")
    return lines


def compare(cases, epg, with_bloch=True, tol=lib.TOL):
    """returns (n_checked, disagreements[list of dict]) ; every disagreement names the case,
    the operator index and both values"""
    all_lines = []
    expect = []
    for ci, case in enumerate(cases):
        try:
            res = run_epg(case, epg)
        except Exception as exc:  # model has no error outcomes for these programs
            expect.append(("error", repr(exc)))
            continue
        nfin = res[-1][0] if res else 0
        bl = None
        if with_bloch and not case.get("options") and all(o.get("nmax") is None for o in case["program"]):
            N = 2 * nfin + 3
            bl = (N, nfin)
        all_lines += lines_for(case, bl)
        expect.append((res, bl))
    out = lib.run_driver(all_lines) if all_lines else []
    pos = 0
    dis = []
    checked = 0
    for ci, (case, ex) in enumerate(zip(cases, expect)):
        if ex[0] == "error":
            dis.append({"case": ci, "kind": "epgpy-raised", "error": ex[1], "input": case})
            continue
        res, bl = ex
        for oi, (n, st, eq) in enumerate(res):
            _, mn, mst = lib.parse_states(out[pos]); pos += 1
            _, en, meq = lib.parse_states(out[pos]); pos += 1
            checked += 1
            ok = mn == n
            err = float("inf")
            if ok:
                ok, err = lib.close(st, mst, tol=tol)
            if not ok:
                dis.append({"case": ci, "kind": "model-vs-epgpy states", "op_index": oi, "op": case["program"][oi],
                            "n_model": mn, "n_epgpy": n, "max_abs_diff": err, "input": case,
                            "model": mst, "epgpy": st})
                break_rest = True
            ok2, err2 = lib.close(eq, meq, tol=tol)
            if not ok2:
                dis.append({"case": ci, "kind": "model-vs-epgpy equilibrium", "op_index": oi, "op": case["program"][oi],
                            "max_abs_diff": err2, "input": case, "model": meq, "epgpy": eq})
        if bl:
            _, bn, bst = lib.parse_states(out[pos]); pos += 1
            n, st, _ = res[-1]
            ok, err = lib.close(st, bst, tol=1e-8)
            checked += 1
            if not ok:
                dis.append({"case": ci, "kind": "bloch-ensemble-vs-epgpy", "max_abs_diff": err, "input": case,
                            "expected_by": "Model.Bloch.blochRun + DFT (theorem run_is_bloch_ensemble)",
                            "expected": bst, "observed": st})
    return checked, dis


def gen_cases(r, ncase, maxlen=30, truncate=False, kinds=None):
    cases = []
    for _ in range(ncase):
        L = int(r.integers(1, maxlen + 1))
        st, pd = prog.gen_init(r)
        case = {"init": (None if st is None else st, pd), "program": prog.gen_program(r, L, kinds=kinds, truncate=truncate),
                "mode": "simulate" if r.random() < 0.5 else "apply", "init_as_array": bool(r.random() < 0.5)}
        if truncate and r.random() < 0.5:
            case["options"] = {"max_nstate": int(r.integers(1, 6))}
        cases.append(case)
    return cases


def nontrivial(case):
    kinds = {o["op"] for o in case["program"]}
    return len(kinds) >= 2 and "T" in kinds
