"""C15: Lean `Model/Imaging` vs epgpy's Imaging probe on the coordinate-table states produced by the nd generator;
the property on the real code: box voxel = average of Bloch isochromats (Lean Bloch specification evaluated at
Gauss-Legendre nodes of the voxel), point voxel with imaginary modulation = the off-resonant isochromat; System()
vs probe arguments, weights / reduce, repeated use of one probe instance."""
import warnings

import numpy as np

import lib
import prog
from lib import f2b
import ndc


def gen_case(r):
    case = ndc.gen_case(r, maxlen=10)
    while case["mode"] == "mixed" or not any(o["k"] != "pt" for o in case["ops"]):
        case = ndc.gen_case(r, maxlen=10)
    dim = case["dim"]
    case["pdim"] = dim if r.random() < 0.8 else int(r.integers(1, dim + 1))
    case["box"] = bool(r.random() < 0.6)
    case["size_rel"] = float(r.uniform(0.5, 14.0))
    case["img_phase"] = [None, float(r.uniform(-180, 180))][r.integers(2)]
    mod = None
    if case["mode"] == "time" and r.random() < 0.8:
        u = r.random()
        mod = complex(-float(r.uniform(0.01, 0.3)) if u < 0.66 else 0.0, float(r.uniform(-0.2, 0.2)) if u > 0.33 else 0.0)
    case["modulation"] = mod
    return case


def _prep(case, epg):
    ops, sm, kun, tun = ndc.build(case, epg)
    for op in ops:
        sm = op(sm, inplace=True)
    # wavenumber scale of the sequence: the largest wavenumber any pathway can reach (sum of the shift moments), so that
    # voxel sizes and positions stay commensurate with every intermediate dephasing (a final state refocused at k = 0
    # would otherwise give absurd position scales and cos/sin of arguments ~1e13 in the isochromat reference)
    total = 0.0
    for o in case["ops"]:
        if o["k"] != "pt":
            total += float(np.max(np.abs(np.asarray(ndc.k4_of(o, case)[:3], dtype=float))))
    kmax = max(total, 1.0) * float(np.max(kun))
    return sm, kun, tun, kmax


def compare(cases, epg, tol=1e-7, nodes=12):
    from epgpy import probe

    gl_x, gl_w = np.polynomial.legendre.leggauss(nodes)
    lines, expect = [], []
    for case in cases:
        try:
            with warnings.catch_warnings():
                warnings.simplefilter("ignore")
                sm, kun, tun, kmax = _prep(case, epg)
                pdim = case["pdim"]
                size = float(case.setdefault("size_rel", 4.0)) / kmax  # |k| size / 2 up to 7: side lobes of the sinc included
                x = np.asarray(case["x"][:pdim]) / kmax * 3
                opts = {"voxel_shape": "box" if case["box"] else "point", "voxel_size": size}
                if case["img_phase"] is not None:
                    opts["phase"] = case["img_phase"]
                if case["modulation"] is not None:
                    opts["modulation"] = case["modulation"]
                pr = probe.Imaging(x[None, :], **opts)
                val = complex(np.asarray(pr.acquire(sm)).reshape(-1)[0])
                val2 = complex(np.asarray(pr.acquire(sm)).reshape(-1)[0])  # same instance, second use
        except Exception as exc:
            expect.append(("error", repr(exc)))
            continue
        kd = 1 if sm.coords is None else min(sm.kdim, 3)
        expect.append((val, val2, kd, size, x, kun, tun))
        ls = ndc.lines_for(case, kun, tun)[:-2]  # state only
        mod = case["modulation"]
        mre = "none" if mod is None else f2b(mod.real)
        mim = "none" if mod is None else f2b(mod.imag)
        ph = "none" if case["img_phase"] is None else f2b(case["img_phase"])
        x3 = list(x) + [0.0] * (3 - len(x))
        ls.append("nimg {} {} {} {} {} {} {} {} {} {} {} {} {} {}".format(
            kd, pdim, *[f2b(float(v)) for v in kun], f2b(tun), *[f2b(float(v)) for v in x3], 1 if case["box"] else 0,
            f2b(size), mre, mim, ph))
        # oracle: Bloch isochromats at the Gauss-Legendre nodes of the voxel (point: the position itself)
        use_oracle = (mod is None or mod.real == 0.0) and kd == pdim and pdim <= 2 and case["img_phase"] is None
        npts = 0
        if use_oracle:
            w = 0.0 if mod is None else 2 * np.pi * mod.imag
            if case["box"]:
                grids = np.meshgrid(*[gl_x] * pdim, indexing="ij")
                wts = np.ones_like(grids[0])
                for g in np.meshgrid(*[gl_w] * pdim, indexing="ij"):
                    wts = wts * g / 2
                pts = np.stack([g.reshape(-1) for g in grids], axis=-1) * size / 2 + x
                wts = wts.reshape(-1)
            else:
                pts, wts = x[None, :], np.ones(1)
            for p in pts:
                p3 = list(p) + [0.0] * (3 - len(p))
                ls.append("nsynth " + " ".join(f2b(float(v)) for v in list(kun) + p3 + [tun, w]))
            npts = len(pts)
            expect[-1] = expect[-1] + (wts,)
        lines += ls
        case["_npts"] = npts
    out = lib.run_driver(lines) if lines else []
    pos, dis, checked = 0, [], 0
    dist = {"box": 0, "point": 0, "modulated": 0, "bloch_oracle": 0}
    for case, ex in zip(cases, expect):
        if isinstance(ex[0], str):
            dis.append({"kind": "img-epgpy-raised", "problems": [ex[1]], "input": {k: v for k, v in case.items() if not k.startswith("_")}})
            continue
        val, val2 = ex[0], ex[1]
        toks = out[pos].split(); pos += 1
        model = complex(lib.b2f(toks[1]), lib.b2f(toks[2]))
        checked += 1
        dist["box" if case["box"] else "point"] += 1
        dist["modulated"] += case["modulation"] is not None
        probs = []
        if abs(model - val) > tol:
            probs.append(("Imaging probe differs from the model (epgpy, model)", val, model))
        if abs(val2 - val) > 1e-12:
            probs.append(("second use of the same probe instance returns another value", val, val2))
        npts = case.pop("_npts", 0)
        if npts:
            wts = ex[-1]
            acc = 0j
            for i in range(npts):
                pos += 1  # ns line
                nb = ndc.parse_ps(out[pos]); pos += 1
                acc += wts[i] * nb[0]
            dist["bloch_oracle"] += 1
            if abs(acc - val) > 1e-6:
                probs.append(("Imaging probe differs from the average of Bloch isochromats over the voxel (epgpy, Bloch average)", val, acc))
        if probs:
            dis.append({"kind": "model-vs-epgpy imaging", "problems": probs, "input": {k: v for k, v in case.items() if not k.startswith("_")}})
    return checked, dis, dist


def search_options(r, epg, ncase):
    """System() vs probe arguments, weights over batch axes, reduce settings, repeated simulate()"""
    from epgpy import probe

    dis, checked = [], 0
    for _ in range(ncase):
        batch = [(2,), (3,), (2, 2)][r.integers(3)]
        alpha = r.uniform(10, 120, size=batch)
        npos = int(r.integers(1, 4))
        pdim = int(r.integers(1, 3))
        coords = r.uniform(-0.5, 0.5, size=(npos, pdim))
        mod = complex(-float(r.uniform(0.01, 0.2)), float(r.uniform(-0.2, 0.2)))
        weights = r.uniform(0.2, 2, size=batch + (1,))  # batch axes, broadcast along the position axis
        grad = [float(r.uniform(2, 10)) for _ in range(pdim)]

        def seq(pr, system=None):
            s = [] if system is None else [system]
            for i in range(int(2)):
                s += [epg.T(alpha, 10.0 * i), epg.G(1.0, grad if pdim > 1 else grad[0], kgrid=1.0), epg.C(2.0, kgrid=0.5), pr]
            return s

        try:
            with warnings.catch_warnings():
                warnings.simplefilter("ignore")
                kw = {"voxel_shape": ["box", "point"][r.integers(2)], "voxel_size": float(r.uniform(0.01, 0.2))}
                p_args = probe.Imaging(coords, modulation=mod, weights=weights, **kw)
                a1 = np.asarray(epg.simulate(seq(p_args)))
                a2 = np.asarray(epg.simulate(seq(p_args)))  # same sequence object again
                p_sys = probe.Imaging(**kw)
                p_sys = probe.Imaging(coords, **kw)
                b = np.asarray(epg.simulate(seq(p_sys, epg.System(modulation=mod, weights=weights))))
                p_raw = probe.Imaging(coords, modulation=mod, reduce=False, **kw)
                raw = np.asarray(epg.simulate(seq(p_raw)))
                p_now = probe.Imaging(coords, modulation=mod, reduce=False, weights=weights, **kw)
                wraw = np.asarray(epg.simulate(seq(p_now)))
                # positions taken from System(), changed between two uses of one probe instance (no batch)
                c1 = r.uniform(-0.5, 0.5, size=(npos, pdim)); c2 = r.uniform(-0.5, 0.5, size=(npos, pdim))
                p_nc = probe.Imaging(reduce=False, **kw)

                def useq(pr, system=None):
                    s0 = [] if system is None else [system]
                    return s0 + [epg.T(40.0, 10.0), epg.G(1.0, grad if pdim > 1 else grad[0], kgrid=1.0), epg.C(2.0, kgrid=0.5), pr]

                epg.simulate(useq(p_nc, epg.System(coords=c1)))
                s2 = np.asarray(epg.simulate(useq(p_nc, epg.System(coords=c2))))
                s2ref = np.asarray(epg.simulate(useq(probe.Imaging(c2, reduce=False, **kw))))
                # two protocols started from ONE StateMatrix object: A declares weights / off-resonance through System(),
                # B declares nothing and must not see what A declared (simulate(init=sm0) and out-of-place System(...)(sm0))
                sm0 = epg.StateMatrix()
                p_b = probe.Imaging(c1, reduce=False, **kw)
                w1 = r.uniform(0.2, 2, size=(1,))
                epg.simulate(useq(p_b, epg.System(modulation=mod, weights=w1)), init=sm0)
                b_after = np.asarray(epg.simulate(useq(p_b), init=sm0))
                smA = epg.System(modulation=mod, weights=w1)(sm0)
                b_after2 = np.asarray(epg.simulate(useq(p_b), init=sm0))
                b_fresh = np.asarray(epg.simulate(useq(probe.Imaging(c1, reduce=False, **kw))))
        except Exception as exc:
            dis.append({"kind": "c15-options", "problems": [("raised", repr(exc))], "input": {"batch": batch, "npos": npos, "pdim": pdim}})
            continue
        checked += 1
        probs = []
        if a1.shape != a2.shape or not np.allclose(a1, a2, atol=1e-12):
            probs.append(("simulate() twice with the same Imaging instance gives different values", a1.tolist(), a2.tolist()))
        if a1.shape != b.shape or not np.allclose(a1, b, atol=1e-10):
            probs.append(("coords/modulation/weights from System() differ from the probe's own arguments", a1.tolist(), b.tolist()))
        if s2.shape != s2ref.shape or not np.allclose(s2, s2ref, atol=1e-10):
            probs.append(("positions changed through System() between two uses of one probe instance are not honoured", s2.tolist(), s2ref.tolist()))
        if b_after.shape != b_fresh.shape or not np.allclose(b_after, b_fresh, atol=1e-10) or not np.allclose(b_after2, b_fresh, atol=1e-10):
            probs.append(("a run that declares nothing sees the System(weights, modulation) another run declared on a copy of the same "
                          "StateMatrix", b_after.tolist(), b_after2.tolist(), b_fresh.tolist()))
        wexp = raw * weights.reshape((1,) + batch + (1,) * (raw.ndim - 1 - len(batch)))[..., : raw.shape[-1]] if raw.ndim == len(batch) + 2 else raw * weights[None]
        if wraw.shape != wexp.shape or not np.allclose(wraw, wexp, atol=1e-10):
            probs.append(("weights are not a plain multiplication of the unreduced values", wraw.tolist(), wexp.tolist()))
        if not np.allclose(a1.reshape(a1.shape[0], -1).sum(axis=1) if a1.ndim > 1 else a1, wexp.reshape(wexp.shape[0], -1).sum(axis=1), atol=1e-9):
            probs.append(("reduce=True is not the sum of the weighted unreduced values", a1.tolist(), wexp.reshape(wexp.shape[0], -1).sum(axis=1).tolist()))
        if probs:
            dis.append({"kind": "c15-options", "problems": probs, "input": {"batch": batch, "npos": npos, "pdim": pdim, "alpha": alpha.tolist(),
                                                                             "coords": coords.tolist(), "modulation": mod, "weights": weights.tolist(), **kw}})
    return checked, dis
