"""C05: correspondence of the Lean coordinate-table model with diffusion (`Model/Diffusion`) vs epgpy's D operator,
and the property itself on the real code: the signal equals the sum over explicitly enumerated coherence pathways of
amplitude * exp(-b:D) with b the analytic time integral of k(t) k(t)^T (own formulas, physical units)."""
import itertools
import warnings

import numpy as np

import lib
import prog
from lib import f2b
import ndc


def spd(r, d):
    a = r.normal(size=(d, d))
    m = a @ a.T
    return m / np.trace(m) * d * float(r.uniform(0.2, 3.0))


def gen_case(r, maxlen=10):
    dim = int(r.integers(1, 4))
    kvalue = float(r.uniform(2e3, 3e4))
    ops = []
    last_shift = None
    for _ in range(int(r.integers(2, maxlen + 1))):
        u = r.random()
        if u < 0.35:
            ops.append({"k": "pt", "o": prog.gen_op(r, ["T", "T", "E", "Phi"][r.integers(4)])}); last_shift = None
        elif u < 0.65:
            v = r.integers(-2, 3, size=dim)
            if not v.any():
                v[0] = 1
            if dim == 1 and r.random() < 0.4:
                ops.append({"k": "Spy", "v": int(v[0])})
            else:
                ops.append({"k": "Sint", "v": v.tolist()})
            last_shift = v.tolist()
        else:
            D = float(r.uniform(0.1, 3.0)) if r.random() < 0.5 else spd(r, dim).tolist()
            with_k = last_shift is not None and r.random() < 0.7
            ops.append({"k": "D", "tau": float(r.uniform(1, 40)), "D": D, "shift": last_shift if with_k else None})
            last_shift = None
    return {"dim": dim, "kvalue": kvalue, "pd": 1.0, "ops": ops}


def build(case, epg):
    ops = []
    for o in case["ops"]:
        if o["k"] == "pt":
            ops.append(prog.to_epg(o["o"], epg))
        elif o["k"] == "Sint":
            ops.append(epg.S(np.array([o["v"]], dtype=int), prune=0))
        elif o["k"] == "Spy":
            ops.append(epg.S(int(o["v"]), prune=0))
        else:
            D = o["D"] if np.isscalar(o["D"]) else np.asarray(o["D"])
            k = None if o["shift"] is None else np.array([o["shift"]], dtype=float)
            ops.append(epg.D(o["tau"], D, k))
    return ops


def lines_for(case):
    dim, kv = case["dim"], case["kvalue"]
    lines = ["case", f"ninit {f2b(case['pd'])}"]
    for o in case["ops"]:
        if o["k"] == "pt":
            lines.append("npt " + prog.to_line(o["o"]))
        elif o["k"] == "Sint":
            v = (list(o["v"]) + [0, 0, 0])[:3]
            lines.append(f"nshift {v[0]} {v[1]} {v[2]} 0")
        elif o["k"] == "Spy":
            lines.append(f"nshift {o['v']} 0 0 0")
        else:
            if np.isscalar(o["D"]):
                dtok = f"scalar {f2b(o['D'])}"
            else:
                Dm = np.zeros((3, 3)); Dm[:dim, :dim] = np.asarray(o["D"])
                dtok = "tensor " + " ".join(f2b(float(x)) for x in Dm.reshape(-1))
            stok = ""
            if o["shift"] is not None:
                g = (list(np.asarray(o["shift"], dtype=float) * kv) + [0.0, 0.0, 0.0])[:3]
                stok = " " + " ".join(f2b(float(x)) for x in g)
            lines.append(f"ndiff {dim} {f2b(kv)} {f2b(kv)} {f2b(kv)} {f2b(o['tau'])} {dtok}{stok}")
    lines.append("ndump")
    return lines


def compare(cases, epg, tol=1e-9):
    lines, expect = [], []
    for case in cases:
        try:
            with warnings.catch_warnings():
                warnings.simplefilter("ignore")
                sm = epg.StateMatrix(kvalue=case["kvalue"])
                for op in build(case, epg):
                    sm = op(sm, inplace=True)
                expect.append(ndc._content(sm))
        except Exception as exc:
            expect.append(("error", repr(exc)))
            continue
        lines += lines_for(case)
    out = lib.run_driver(lines) if lines else []
    pos, dis, checked = 0, [], 0
    for case, ex in zip(cases, expect):
        if isinstance(ex, tuple):
            dis.append({"kind": "dif-epgpy-raised", "problems": [ex[1]], "input": case})
            continue
        model = ndc.parse_nd(out[pos]); pos += 1
        checked += 1
        kv = case["kvalue"]
        real = {tuple(int(round(v / kv)) for v in key): st for key, st in ex.items()}
        probs = []
        for key in set(real) | {k[:3] for k in model}:
            a = real.get(key, np.zeros(3)); b = model.get(key + (0,), np.zeros(3))
            if np.max(np.abs(a - b)) > tol:
                probs.append(("state at wavenumber index differs (epgpy, model)", key, np.asarray(a).tolist(), b.tolist())); break
        if probs:
            dis.append({"kind": "model-vs-epgpy diffusion", "problems": probs, "input": case})
    return checked, dis


# ---------------------------------------------------------------------------------------------
# the property on the real code: explicit coherence pathways with analytic b-matrices
# ---------------------------------------------------------------------------------------------
def rot(alpha, phi):
    a, p = np.deg2rad(alpha), np.deg2rad(phi)
    c2, s2, s = np.cos(a / 2) ** 2, np.sin(a / 2) ** 2, np.sin(a)
    return np.array([[c2, np.exp(2j * p) * s2, -1j * np.exp(1j * p) * s],
                     [np.exp(-2j * p) * s2, c2, 1j * np.exp(-1j * p) * s],
                     [-0.5j * np.exp(-1j * p) * s, 0.5j * np.exp(1j * p) * s, np.cos(a)]])


def b_const(tau_ms, k):
    k = np.asarray(k, dtype=float) * 1e-3
    return np.outer(k, k) * tau_ms * 1e-3


def b_ramp(tau_ms, k1, k2, nquad=None):
    """time integral of k(t) k(t)^T, k ramping linearly from k1 to k2 (closed form of the polynomial integral)"""
    k1, k2 = np.asarray(k1, dtype=float) * 1e-3, np.asarray(k2, dtype=float) * 1e-3
    d = k2 - k1
    tau = tau_ms * 1e-3
    return tau * (np.outer(k1, k1) + 0.5 * (np.outer(k1, d) + np.outer(d, k1)) + np.outer(d, d) / 3)


def search_pathways(r, epg, ncase):
    dis, checked = [], 0
    dist = {"pathways": 0, "tensor": 0, "ramp_intervals": 0}
    for _ in range(ncase):
        dim = int(r.integers(1, 4))
        kv = float(r.uniform(2e3, 3e4))
        D = float(r.uniform(0.1, 3.0)) if r.random() < 0.5 else spd(r, dim)
        dist["tensor"] += not np.isscalar(D)
        Dm = D * np.eye(dim) if np.isscalar(D) else D
        npulse = int(r.integers(1, 5))
        plan = []
        for _ in range(npulse):
            plan.append(("T", float(r.uniform(10, 170)), float(r.uniform(-180, 180))))
            for _ in range(int(r.integers(1, 3))):
                tau = float(r.uniform(1, 30))
                if r.random() < 0.7:
                    v = r.integers(-2, 3, size=dim)
                    if not v.any():
                        v[0] = 1
                    plan.append(("GD", v.tolist(), tau))  # gradient during the interval: S(v) then D(tau, D, v)
                    dist["ramp_intervals"] += 1
                else:
                    plan.append(("D0", tau))              # gradient-free interval
        # oracle: pathways (comp, k index tuple) -> list of (amp, b)
        paths = [(2, (0,) * dim, 1.0 + 0j, np.zeros((dim, dim)))]
        for st in plan:
            new = []
            if st[0] == "T":
                m = rot(st[1], st[2])
                for comp, k, amp, b in paths:
                    for c2 in range(3):
                        if abs(m[c2, comp]) > 0:
                            # storage convention: F-(k) is the coefficient of M- at index k; an F+ pathway at k feeds F- at -k? no:
                            # the rotation mixes the components of the SAME stored index k
                            new.append((c2, k, amp * m[c2, comp], b))
            elif st[0] == "GD":
                g = np.asarray(st[1])
                for comp, k, amp, b in paths:
                    k0 = np.asarray(k)
                    if comp == 0:
                        k1 = k0 + g
                    elif comp == 1:
                        k1 = k0 - g
                    else:
                        k1 = k0
                    bb = b_ramp(st[2], k0 * kv, k1 * kv) if comp != 2 else b_const(st[2], k0 * kv)
                    new.append((comp, tuple(int(x) for x in k1), amp, b + bb))
            else:
                for comp, k, amp, b in paths:
                    new.append((comp, k, amp, b + b_const(st[1], np.asarray(k) * kv)))
            paths = new
        dist["pathways"] += len(paths)
        ref = {}
        for comp, k, amp, b in paths:
            val = amp * np.exp(-np.sum(b * Dm))
            ref.setdefault(k, np.zeros(3, dtype=complex))[comp] += val
        try:
            with warnings.catch_warnings():
                warnings.simplefilter("ignore")
                seq = []
                for st in plan:
                    if st[0] == "T":
                        seq.append(epg.T(st[1], st[2]))
                    elif st[0] == "GD":
                        seq.append(epg.S(np.array([st[1]], dtype=int), prune=0))
                        seq.append(epg.D(st[2], D, np.array([st[1]], dtype=float)))
                    else:
                        seq.append(epg.D(st[1], D))
                if r.random() < 0.5:
                    # the same operator objects have already been used on a state matrix with other wavenumbers
                    dist["reused_objects"] = dist.get("reused_objects", 0) + 1
                    warm = epg.StateMatrix(kvalue=kv * float(r.uniform(0.3, 3)))
                    for op in seq:
                        warm = op(warm, inplace=True)
                sm = epg.StateMatrix(kvalue=kv)
                for op in seq:
                    sm = op(sm, inplace=True)
                got = ndc._content(sm)
                F0 = complex(np.asarray(sm.F0).reshape(-1)[0])
        except Exception as exc:
            dis.append({"kind": "c05-pathways", "problems": [("raised", repr(exc))], "input": {"plan": plan, "D": D, "kvalue": kv, "dim": dim}})
            continue
        checked += 1
        real = {tuple(int(round(v / kv)) for v in key[:dim]): st for key, st in got.items()}
        probs = []
        for key in set(real) | set(ref):
            a = real.get(key, np.zeros(3)); b = ref.get(key, np.zeros(3))
            if np.max(np.abs(a - b)) > 1e-9:
                probs.append(("state differs from the sum over coherence pathways of amplitude*exp(-b:D) (epgpy, pathways)",
                              key, np.asarray(a).tolist(), np.asarray(b).tolist())); break
        f0ref = ref.get((0,) * dim, np.zeros(3))[0]
        if abs(F0 - f0ref) > 1e-9:
            probs.append(("signal F0 differs from the pathway sum", F0, complex(f0ref)))
        if probs:
            dis.append({"kind": "c05-pathways", "problems": probs, "input": {"plan": plan, "D": D, "kvalue": kv, "dim": dim}})
    return checked, dis, dist


def search_identities(r, epg, ncase):
    """scalar D == isotropic tensor; zero-wavenumber state untouched in gradient-free intervals; float gridded wavenumbers
    (kgrid) give the same attenuation as integer wavenumbers with kvalue"""
    dis, checked = [], 0
    for _ in range(ncase):
        dim = int(r.integers(1, 4))
        kv = float(r.uniform(2e3, 3e4))
        Ds = float(r.uniform(0.1, 3.0))
        plan = []
        for _ in range(int(r.integers(1, 4))):
            plan.append(("T", float(r.uniform(10, 170)), float(r.uniform(-180, 180))))
            v = r.integers(-2, 3, size=dim)
            if not v.any():
                v[0] = 1
            plan.append(("GD", v.tolist(), float(r.uniform(1, 30))))
            if r.random() < 0.5:
                plan.append(("D0", float(r.uniform(1, 30))))

        def run(D, flt):
            sm = epg.StateMatrix(kvalue=1.0 if flt else kv)
            z0 = []
            for st in plan:
                if st[0] == "T":
                    sm = epg.T(st[1], st[2])(sm, inplace=True)
                elif st[0] == "GD":
                    if flt:
                        sm = epg.S(np.array([st[1]], dtype=float) * kv, kgrid=kv / 4, prune=0)(sm, inplace=True)
                        sm = epg.D(st[2], D, np.array([st[1]], dtype=float) * kv)(sm, inplace=True)
                    else:
                        sm = epg.S(np.array([st[1]], dtype=int), prune=0)(sm, inplace=True)
                        sm = epg.D(st[2], D, np.array([st[1]], dtype=float))(sm, inplace=True)
                else:
                    before = complex(np.asarray(sm.Z0).reshape(-1)[0])
                    sm = epg.D(st[1], D)(sm, inplace=True)
                    z0.append((before, complex(np.asarray(sm.Z0).reshape(-1)[0])))
            return ndc._content(sm), z0

        try:
            with warnings.catch_warnings():
                warnings.simplefilter("ignore")
                a, z0 = run(Ds, False)
                b, _ = run(Ds * np.eye(dim), False)
                c, _ = run(Ds, True)
        except Exception as exc:
            dis.append({"kind": "c05-identities", "problems": [("raised", repr(exc))], "input": {"plan": plan, "D": Ds, "kvalue": kv}})
            continue
        checked += 1
        probs = []
        for name, other in (("isotropic tensor", b), ("float gridded wavenumbers", c)):
            for key in set(a) | set(other):
                x = a.get(key, np.zeros(3)); y = other.get(key, np.zeros(3))
                if np.max(np.abs(x - y)) > 1e-9:
                    probs.append((f"scalar diffusivity with integer wavenumbers differs from {name}", key, np.asarray(x).tolist(), np.asarray(y).tolist())); break
        for before, after in z0:
            if abs(before - after) > 1e-12:
                probs.append(("zero-wavenumber state attenuated in a gradient-free interval", before, after)); break
        if probs:
            dis.append({"kind": "c05-identities", "problems": probs, "input": {"plan": plan, "D": Ds, "kvalue": kv, "dim": dim}})
    return checked, dis
