"""Correspondence `rf` (C18): Lean `Model/RF` (make_pulse_sequence / rfpulse over the operator model) vs
epgpy.RFPulse applied to a state matrix; searches on the real code: explicit ordered product with batch
parameters, phase-offset identity, encode_phase vs hand-built precession, estimate_rf / estimate_alpha."""
import warnings

import numpy as np

import lib
import prog
from lib import f2b


def epg_rfpulse(epg):
    from epgpy import rfpulse

    return rfpulse.RFPulse


def gen_waveform(r, n=None, kind=None):
    n = n or int(r.integers(1, 25))
    kind = kind or ["sinc", "random", "const_phase", "chirp", "hard"][r.integers(5)]
    t = np.linspace(-1, 1, n) if n > 1 else np.array([0.0])
    if kind == "sinc":
        v = np.sinc(t * float(r.uniform(1, 4))) * np.exp(1j * float(r.uniform(-3, 3)))
    elif kind == "random":
        v = r.uniform(0, 1, size=n) * np.exp(1j * r.uniform(-np.pi, np.pi, size=n))
    elif kind == "const_phase":
        v = r.uniform(-1, 1, size=n) * np.exp(1j * float(r.uniform(-3, 3)))
    elif kind == "chirp":
        v = float(r.uniform(0.2, 1)) * np.exp(1j * float(r.uniform(1, 10)) * t**2)
    else:
        v = np.ones(n) * float(r.uniform(0.1, 1))
    v = np.asarray(v, dtype=complex)
    m = np.max(np.abs(v))
    if m > 1:
        v = v / m
    if r.random() < 0.3 and n > 1:
        v[int(r.integers(n))] = 0
    if r.random() < 0.3:
        v = v / max(np.max(np.abs(v)), 1e-12)  # touch the |v| = 1 boundary
        v = v / max(np.max(np.abs(v)), 1.0)
    return v, kind


def gen_case(r):
    st, pd = prog.gen_init(r)
    v, kind = gen_waveform(r)
    n = len(v)
    if r.random() < 0.6:
        duration = float(r.uniform(0.2, 5))
    else:
        duration = r.uniform(0.01, 0.5, size=n).tolist()
    case = {"init": (st, pd), "values": v, "kind": kind, "duration": duration, "rf": float(r.uniform(0.05, 2.0)),
            "phi": [None, 0.0, float(r.uniform(-180, 180))][r.integers(3)], "T1": None, "T2": None, "g": None}
    u = r.random()
    if u < 0.35:
        case["T1"], case["T2"] = float(r.uniform(100, 2000)), float(r.uniform(5, 100))
    elif u < 0.45:
        case["T2"] = float(r.uniform(5, 100))
    elif u < 0.5:
        case["T1"] = float(r.uniform(100, 2000))
    if r.random() < 0.4:
        case["g"] = float(r.uniform(-0.3, 0.3))
    return case


def build_pulse(case, epg, values=None, phi="case"):
    kw = {k: case[k] for k in ("T1", "T2", "g") if case[k] is not None}
    phi = case["phi"] if phi == "case" else phi
    return epg_rfpulse(epg)(case["values"] if values is None else values, case["duration"], rf=case["rf"], phi=phi, **kw)


def run_epg(case, epg):
    st, pd = case["init"]
    sm = epg.StateMatrix(density=pd) if st is None else epg.StateMatrix(np.asarray(st), density=pd)
    pulse = build_pulse(case, epg)
    out = pulse(sm)
    states = np.asarray(out.states)
    return out.nstate, states[0].copy(), float(np.sum(np.asarray(pulse.duration))), float(np.sum([np.asarray(op.duration) for op in pulse.operators]))


def lines_for(case):
    st, pd = case["init"]
    v = np.asarray(case["values"])
    n = len(v)
    durs = [case["duration"] / n * 1.0] * n if np.isscalar(case["duration"]) else list(case["duration"])
    if np.isscalar(case["duration"]):
        durs = list(np.ones(n) * case["duration"] / n)
    mags, angs = np.abs(v), np.angle(v, deg=True)
    opt = lambda x: "none" if x is None else f2b(x)
    off = None if not case["phi"] else case["phi"]
    trip = " ".join(f"{f2b(m)} {f2b(a)} {f2b(d)}" for m, a, d in zip(mags, angs, durs))
    return ["case", prog.init_line(None if st is None else np.asarray(st), pd),
            f"srf {f2b(case['rf'])} {opt(off)} {opt(case['T1'])} {opt(case['T2'])} {opt(case['g'])} {n} {trip}",
            "sapply", "dump"]


def compare(cases, epg, tol=1e-9):
    lines, expect = [], []
    for case in cases:
        try:
            with warnings.catch_warnings():
                warnings.simplefilter("ignore")
                expect.append(run_epg(case, epg))
        except Exception as exc:
            expect.append(("error", repr(exc)))
            continue
        lines += lines_for(case)
    out = lib.run_driver(lines) if lines else []
    pos, dis, checked = 0, [], 0
    for case, ex in zip(cases, expect):
        if ex[0] == "error":
            dis.append({"kind": "rf-epgpy-raised", "problems": [ex[1]], "input": case})
            continue
        n, st, dur, dursum = ex
        mdur = lib.b2f(out[pos].split()[1]); pos += 1
        _, mn, mst = lib.parse_states(out[pos]); pos += 1
        checked += 1
        probs = []
        ok, err = (mn == n), float("inf")
        if ok:
            ok, err = lib.close(st, mst, tol=tol)
        if not ok:
            probs.append(("state after the pulse", err, np.asarray(mst).tolist(), st.tolist()))
        want = float(np.sum(case["duration"]))
        if abs(dur - want) > 1e-9 * (1 + want) or abs(mdur - want) > 1e-9 * (1 + want) or abs(dursum - want) > 1e-9 * (1 + want):
            probs.append(("total duration", dur, dursum, mdur, want))
        if probs:
            dis.append({"kind": "model-vs-epgpy rfpulse", "problems": probs, "input": case})
    return checked, dis


# ---------------------------------------------------------------------------------------------
def _states(sm):
    return np.asarray(sm.states)


def search_product(r, epg, ncase):
    """RFPulse with batch parameters (rf / T1 / T2 / g arrays) vs the hand-built ordered product; the phase offset identity"""
    dis, checked = [], 0
    dist = {"array_rf": 0, "array_relax": 0, "array_g": 0, "offset": 0, "per_sample_durations": 0, "simulate": 0}
    for _ in range(ncase):
        v, kind = gen_waveform(r, n=int(r.integers(1, 12)))
        n = len(v)
        batch = [(2,), (3,), (2, 2)][r.integers(3)]
        rf = float(r.uniform(0.05, 1.5))
        if r.random() < 0.35:
            rf = r.uniform(0.05, 1.5, size=batch[:1] if r.random() < 0.5 else batch)
            dist["array_rf"] += 1
        per = r.random() < 0.4
        duration = r.uniform(0.01, 0.5, size=n) if per else float(r.uniform(0.2, 4))
        dist["per_sample_durations"] += per
        kw = {}
        u = r.random()
        if u < 0.5:
            kw["T1"] = float(r.uniform(200, 2000))
            kw["T2"] = r.uniform(5, 100, size=batch) if r.random() < 0.5 else float(r.uniform(5, 100))
            dist["array_relax"] += np.ndim(kw["T2"]) > 0
        if r.random() < 0.5:
            kw["g"] = r.uniform(-0.3, 0.3, size=batch) if r.random() < 0.6 else float(r.uniform(-0.3, 0.3))
            dist["array_g"] += np.ndim(kw["g"]) > 0
        phi = [None, float(r.uniform(-180, 180))][r.integers(2)]
        dist["offset"] += phi is not None
        inp = {"values": v, "duration": duration, "rf": rf, "phi": phi, "kw": kw, "batch": batch}
        try:
            with warnings.catch_warnings():
                warnings.simplefilter("ignore")
                # rf arrays need alpha= too (estimate_alpha takes a scalar rf); alpha is then only stored
                extra = {"alpha": 30.0} if np.ndim(rf) else {}
                pulse = epg_rfpulse(epg)(v, duration, rf=rf, phi=phi, **extra, **kw)
                durs = np.asarray(duration) if per else np.ones(n) * duration / n
                vv = v * np.exp(1j * np.pi / 180 * phi) if phi is not None else v
                ref = []
                rfa = np.asarray(rf)
                for x, d in zip(vv, durs):
                    ref.append(epg.T(180 * abs(x) * rfa, float(np.angle(x, deg=True))))
                    if kw:
                        if "T1" in kw or "T2" in kw:
                            ref.append(epg.E(d, kw.get("T1", 1e10), kw.get("T2", 1e10), kw.get("g", 0)))
                        else:
                            ref.append(epg.P(d, kw["g"]))
                sm0 = epg.StateMatrix(shape=batch)
                sm0 = epg.T(float(r.uniform(20, 90)), float(r.uniform(-90, 90)))(epg.S(1)(epg.T(40, 10)(sm0)))
                a = _states(pulse(sm0))
                smr = sm0
                for op in ref:
                    smr = op(smr)
                b = _states(smr)
                use_sim = r.random() < 0.3
                if use_sim:
                    dist["simulate"] += 1
                    s1 = np.asarray(epg.simulate([pulse, epg.ADC, epg.Adc("Z0")], init=sm0))
                    s2 = np.asarray(epg.simulate(ref + [epg.ADC, epg.Adc("Z0")], init=sm0))
        except Exception as exc:
            dis.append({"kind": "c18-product", "problems": [("raised", repr(exc))], "input": inp})
            continue
        checked += 1
        probs = []
        try:
            A, B = np.broadcast_arrays(a, b)
            same = np.allclose(A, B, atol=1e-9)
        except ValueError:
            same = False
        if not same:
            probs.append(("RFPulse differs from the ordered product of hard pulses and evolutions (offset = rotated samples)",
                          np.asarray(a).tolist(), np.asarray(b).tolist()))
        if use_sim and (s1.shape != s2.shape or not np.allclose(s1, s2, atol=1e-9)):
            probs.append(("simulate([pulse, ADC]) differs from the explicit product", s1.tolist(), s2.tolist()))
        want = float(np.sum(duration))
        if abs(float(np.sum(np.asarray(pulse.duration))) - want) > 1e-9 or \
                abs(float(np.sum(epg.get_adc_times([pulse, epg.ADC])[0])) - want) > 1e-9:
            probs.append(("total duration", float(np.sum(np.asarray(pulse.duration))), want))
        if probs:
            dis.append({"kind": "c18-product", "problems": probs, "input": inp})
    return checked, dis, dist


def search_encode(r, epg, ncase):
    """encode_phase(pulse, gradient, fov) vs hand-built: every hard pulse followed by P(dur_i, freqs) on a new axis"""
    from epgpy import rfpulse, utils

    dis, checked = [], 0
    for _ in range(ncase):
        v, kind = gen_waveform(r, n=int(r.integers(2, 10)))
        n = len(v)
        duration = float(r.uniform(0.5, 4))
        rf = float(r.uniform(0.05, 1.0))
        gradient = float(r.uniform(1, 20))
        npoint = int(r.integers(2, 8))
        fov = float(r.uniform(5, 50)) if r.random() < 0.5 else np.sort(r.uniform(-20, 20, size=npoint))
        rewind = [None, True, float(r.uniform(0.2, 0.8))][r.integers(3)]
        # gyromagnetic ratio in kHz/T: default (1H, 42576), 1H given explicitly, 23Na, 31P
        gamma = [None, 42.576e3, 11.262e3, 17.235e3][r.integers(4)]
        inp = {"values": v, "duration": duration, "rf": rf, "gradient": gradient, "fov": fov, "npoint": npoint, "rewind": rewind,
               "gamma": gamma}
        try:
            with warnings.catch_warnings():
                warnings.simplefilter("ignore")
                pulse = epg_rfpulse(epg)(v, duration, rf=rf)
                enc = rfpulse.encode_phase(pulse, gradient, fov, npoint=npoint, rewind=rewind, **({} if gamma is None else {"gamma": gamma}))
                xs = np.linspace(-0.5, 0.5, npoint) * fov if np.isscalar(fov) else np.asarray(fov)
                # defining formula: f [kHz] = gamma [kHz/T] * G [mT/m] * x [mm] * 1e-6
                freqs = (42.576e3 if gamma is None else gamma) * gradient * xs * 1e-6
                ref = []
                for x in v:
                    ref += [epg.T(180 * abs(x) * rf, float(np.angle(x, deg=True))), epg.P(duration / n, freqs)]
                if rewind is not None:
                    ref.append(epg.P(duration * (0.5 if rewind is True else rewind), -freqs))
                sm0 = epg.StateMatrix()
                a = _states(enc(sm0))
                smr = sm0
                for op in ref:
                    smr = op(smr)
                b = _states(smr)
                dur = float(np.sum(np.asarray(enc.duration)))
        except Exception as exc:
            dis.append({"kind": "c18-encode", "problems": [("raised", repr(exc))], "input": inp})
            continue
        checked += 1
        probs = []
        if a.size != b.size or not np.allclose(a.reshape(b.shape), b, atol=1e-9):
            probs.append(("encode_phase differs from hard pulses interleaved with P(dur_i, freq map)", a.tolist(), b.tolist()))
        if abs(dur - duration) > 1e-9:
            probs.append(("duration changed by encode_phase", dur, duration))
        if probs:
            dis.append({"kind": "c18-encode", "problems": probs, "input": inp})
    return checked, dis


def search_estimate(r, epg, ncase):
    """constant-phase waveforms: estimate_rf / estimate_alpha are mutual inverses, and the on-resonance pulse without
    relaxation is the single rotation T(alpha, phase of the summed samples)"""
    from epgpy import rfpulse

    dis, checked = [], 0
    for _ in range(ncase):
        n = int(r.integers(1, 30))
        phi0 = float(r.uniform(-np.pi, np.pi))
        amp = r.uniform(-0.3, 1, size=n) if r.random() < 0.5 else np.sinc(np.linspace(-1, 1, n) * float(r.uniform(0.5, 3)))
        amp = np.asarray(amp, dtype=float)
        if abs(amp.sum()) < 0.05 * n:
            amp = np.abs(amp) + 0.1
        amp = amp / max(1.0, np.max(np.abs(amp)))
        v = amp * np.exp(1j * phi0)
        v = v / max(1.0, np.max(np.abs(v)))  # |x*exp(i phi)| can round above 1
        alpha = float(r.uniform(1, 179)) if r.random() < 0.85 else float([90.0, 30.0, 179.9][r.integers(3)])
        inp = {"values": v, "alpha": alpha}
        try:
            with warnings.catch_warnings():
                warnings.simplefilter("ignore")
                rf = float(rfpulse.estimate_rf(v, alpha))
                back = float(rfpulse.estimate_alpha(v, rf))
                rf2 = float(r.uniform(0.2, 0.95)) * 1.0 / abs(v.sum())  # total angle below 180 degrees
                a2 = float(rfpulse.estimate_alpha(v, rf2))
                rf2back = float(rfpulse.estimate_rf(v, a2))
                pulse = epg_rfpulse(epg)(v, float(r.uniform(0.5, 3)), alpha=alpha)
                sm0 = epg.T(35, 20)(epg.S(1)(epg.T(50, -40)(epg.StateMatrix())))
                a = _states(pulse(sm0))
                b = _states(epg.T(alpha, float(np.angle(v.sum(), deg=True)))(sm0))
        except Exception as exc:
            dis.append({"kind": "c18-estimate", "problems": [("raised", repr(exc))], "input": inp})
            continue
        checked += 1
        probs = []
        if abs(back - alpha) > 1e-6:
            probs.append(("estimate_alpha(estimate_rf(alpha)) != alpha", back, alpha))
        if abs(rf2back - rf2) > 1e-8 * (1 + rf2):
            probs.append(("estimate_rf(estimate_alpha(rf)) != rf", rf2back, rf2))
        if abs(180 * rf * abs(v.sum()) - alpha) > 1e-9 * (1 + alpha):
            probs.append(("estimate_rf is not alpha/180/|sum|", rf, alpha / 180 / abs(v.sum())))
        if not np.allclose(a, b, atol=1e-9):
            probs.append(("on-resonance constant-phase pulse is not the single rotation by the target angle", a.tolist(), b.tolist()))
        if probs:
            dis.append({"kind": "c18-estimate", "problems": probs, "input": inp})
    return checked, dis
