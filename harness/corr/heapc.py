"""C09: histories of calls on shared operator / probe / state-matrix objects, run on epgpy and on the Lean object model
(`Model/Heap`): (1) object identity of results (in place: same object; otherwise a new one), (2) no array of two handles in
different cells shares memory, (3) every handle whose cell the model leaves untouched keeps bit-identical content (states,
equilibrium, coordinates, partial derivatives, system arrays, options), (4) operator objects are unchanged by calls and a
reused instance acts as a fresh one, (5) simulate() twice gives identical results and leaves its init alone,
(6) probe snapshots never change afterwards.  Plus the interpreter-hash-seed sweep."""
import copy
import hashlib
import os
import subprocess
import sys
import warnings

import numpy as np

import lib
import prog


def arrays_of(sm):
    """all arrays reachable from a state matrix: (name, ndarray)"""
    out = [("states", sm.states), ("equilibrium", sm.equilibrium)]
    if sm.coords is not None:
        out.append(("coords", sm.coords))
    for var, part in getattr(sm, "order1", {}).items():
        out.append((f"order1[{var}].states", part.states))
    for pair, part in getattr(sm, "order2", {}).items():
        out.append((f"order2[{pair}].states", part.states))
    try:
        for name in ("weights", "modulation", "coords"):
            v = sm.system.get(name, broadcast=False)
            if v is not None:
                out.append((f"system.{name}", np.asarray(v)))
    except Exception:
        pass
    return [(n, np.asarray(a)) for n, a in out]


def fingerprint(obj):
    h = hashlib.sha1()
    if isinstance(obj, np.ndarray):
        h.update(str(obj.shape).encode()); h.update(np.ascontiguousarray(obj).tobytes())
        return h.hexdigest()
    for name, a in arrays_of(obj):
        h.update(name.encode()); h.update(str(a.shape).encode()); h.update(np.ascontiguousarray(a).tobytes())
    h.update(repr(sorted((k, repr(v)) for k, v in obj.options.items())).encode())
    h.update(repr((np.asarray(obj.kvalue).tolist(), obj.tvalue)).encode())
    return h.hexdigest()


def op_fingerprint(op, depth=0):
    h = hashlib.sha1()
    if depth > 3:
        return ""
    d = getattr(op, "__dict__", {})
    for k in sorted(d):
        v = d[k]
        h.update(k.encode())
        if isinstance(v, np.ndarray):
            h.update(str(v.shape).encode()); h.update(np.ascontiguousarray(v).tobytes())
        elif isinstance(v, (list, tuple)):
            for it in v:
                if isinstance(it, np.ndarray):
                    h.update(np.ascontiguousarray(it).tobytes())
                elif hasattr(it, "__dict__") and not callable(it):
                    h.update(op_fingerprint(it, depth + 1).encode())
                else:
                    h.update(repr(it).encode())
        elif isinstance(v, dict):
            for kk in sorted(v, key=repr):
                vv = v[kk]
                h.update(repr(kk).encode())
                if isinstance(vv, np.ndarray):
                    h.update(np.ascontiguousarray(vv).tobytes())
                elif isinstance(vv, (list, tuple)) and any(isinstance(x, np.ndarray) for x in vv):
                    for x in vv:
                        h.update(np.ascontiguousarray(np.asarray(x)).tobytes() if x is not None else b"N")
                elif isinstance(vv, dict):
                    h.update(repr(sorted((repr(a), repr(b)) for a, b in vv.items())).encode())
                else:
                    h.update(repr(vv).encode())
        elif hasattr(v, "__dict__") and not callable(v) and not isinstance(v, type):
            h.update(op_fingerprint(v, depth + 1).encode())
        else:
            h.update(repr(v).encode())
    return h.hexdigest()


OPKINDS = ["T", "Tdiff", "E", "Ediff", "S", "Snd", "Sfloat", "SPOILER", "PD", "Wait", "Multi", "D", "System", "P", "Combined", "C",
           "ADC", "ProbeOp", "JacOp"]  # probes called as operators obey the same copy / in-place rule


def make_op(r, kind, epg, spec=None):
    """returns (operator, spec) ; the same spec rebuilds an identical fresh operator"""
    if spec is None:
        if kind in ("T", "Tdiff"):
            spec = (kind, float(r.uniform(10, 170)), float(r.uniform(-90, 90)), int(r.integers(3)))
        elif kind in ("E", "Ediff"):
            spec = (kind, float(r.uniform(1, 20)), float(r.uniform(200, 2000)), float(r.uniform(10, 200)), float(r.uniform(-0.05, 0.05)), int(r.integers(3)))
        elif kind == "S":
            spec = (kind, int(r.integers(1, 3)) * (1 if r.random() < 0.6 else -1))
        elif kind in ("Snd", "Sfloat"):
            v = r.integers(-2, 3, size=2)
            if not v.any():
                v[0] = 1
            spec = (kind, v.tolist())
        elif kind == "PD":
            spec = (kind, float(r.uniform(0.5, 2)), bool(r.random() < 0.5))
        elif kind == "Wait":
            spec = (kind, float(r.uniform(0, 3)))
        elif kind == "Multi":
            spec = (kind, float(r.uniform(10, 170)), float(r.uniform(1, 20)))
        elif kind == "D":
            spec = (kind, float(r.uniform(1, 20)), float(r.uniform(0.1, 3)))
        elif kind == "System":
            spec = (kind, float(r.uniform(0.1, 2)))
        elif kind == "P":
            spec = (kind, float(r.uniform(1, 20)), float(r.uniform(-0.1, 0.1)))
        elif kind == "Combined":
            spec = (kind, float(r.uniform(10, 170)), float(r.uniform(10, 170)))
        elif kind == "C":
            spec = (kind, float(r.integers(1, 4)))
        else:
            spec = (kind,)
    k = spec[0]
    if k == "T":
        return epg.T(spec[1], spec[2]), spec
    if k == "Tdiff":
        decl = [dict(order1=True), dict(order1={"x": {"alpha": 1.0}, "y": {"alpha": 1.0, "phi": 2.0}}), dict(order1=True, order2=True)][spec[3]]
        return epg.T(spec[1], spec[2], **decl), spec
    if k == "E":
        return epg.E(spec[1], spec[2], spec[3], spec[4]), spec
    if k == "Ediff":
        decl = [dict(order1="T2"), dict(order1={"x": "T2", "y": "T2"}), dict(order1=True, order2=True)][spec[5]]
        return epg.E(spec[1], spec[2], spec[3], spec[4], **decl), spec
    if k == "S":
        return epg.S(spec[1]), spec
    if k == "Snd":
        return epg.S(np.array([spec[1]], dtype=int)), spec
    if k == "Sfloat":
        return epg.S(np.array([spec[1]], dtype=float), kgrid=0.5), spec
    if k == "SPOILER":
        return epg.SPOILER, spec
    if k == "PD":
        return epg.PD(spec[1], reset=spec[2]), spec
    if k == "Wait":
        return epg.Wait(spec[1]), spec
    if k == "Multi":
        return epg.T(spec[1], 10.0) * epg.E(spec[2], 800.0, 60.0) * epg.S(1), spec
    if k == "D":
        return epg.D(spec[1], spec[2]), spec
    if k == "System":
        return epg.System(weights=spec[1], modulation=-0.01), spec
    if k == "P":
        return epg.P(spec[1], spec[2]), spec
    if k == "Combined":
        return epg.T(spec[1], 20.0) @ epg.T(spec[2], -30.0), spec
    if k == "C":
        return epg.C(spec[1], kgrid=0.5), spec
    if k == "ADC":
        return epg.ADC, spec
    if k == "ProbeOp":
        return epg.Probe("F0"), spec
    if k == "JacOp":
        return epg.Jacobian(["alpha", "T2"]), spec
    raise ValueError(k)


def compatible(kind, sm):
    """keep histories inside the documented domain (back-end switches between int and float coordinates are C04's topic)"""
    c = sm.coords
    if kind == "S":
        return True
    if kind == "Snd":
        return c is None or np.issubdtype(np.asarray(c).dtype, np.integer)
    if kind in ("Sfloat", "C"):
        return True
    return True


def gen_history(r, length):
    hist = []
    for _ in range(length):
        u = r.random()
        if u < 0.62:
            hist.append(("apply", OPKINDS[r.integers(len(OPKINDS))], bool(r.random() < 0.45), float(r.random()), bool(r.random() < 0.5)))
        elif u < 0.72:
            hist.append(("copy", float(r.random())))
        elif u < 0.85:
            hist.append(("simulate", float(r.random())))
        else:
            hist.append(("acquire", float(r.random()), int(r.integers(5))))
    return hist


def run_history(r, epg, hist):
    """returns (model lines, per-step observations, problems found on the real objects alone)"""
    from epgpy import diff as D

    handles = [epg.StateMatrix()]          # handle 0
    kinds = ["sm"]
    pool = {}                              # operator pool: kind -> (operator, spec) reused across the history
    lines = ["hinit"]
    obs, probs = [], []
    prints = [fingerprint(handles[0])]
    for step, cmd in enumerate(hist):
        sms = [i for i, k in enumerate(kinds) if k == "sm"]
        pick = lambda u: sms[int(u * len(sms)) % len(sms)]
        before = list(prints)
        new = None
        touched = None
        if cmd[0] == "apply":
            _, kind, inplace, u, reuse = cmd
            h = pick(u)
            if not compatible(kind, handles[h]):
                kind = "T"
            if reuse and kind in pool:
                op, spec = pool[kind]
            else:
                op, spec = make_op(r, kind, epg)
                pool[kind] = (op, spec)
            fresh, _ = make_op(r, kind, epg, spec)
            opfp = op_fingerprint(op)
            try:
                with warnings.catch_warnings():
                    warnings.simplefilter("ignore")
                    ref = fresh(copy.deepcopy(handles[h]), inplace=inplace)  # same mode, on an independent deep copy
                    out = op(handles[h], inplace=inplace)
            except Exception as exc:
                obs.append(("skipped", repr(exc)[:80]))
                continue
            lines.append(f"h apply {h} {1 if inplace else 0}")
            if op_fingerprint(op) != opfp and kind not in ("SPOILER", "ADC"):
                probs.append((step, f"operator object {kind} modified by its own application"))
            if fingerprint(out) != fingerprint(ref):
                probs.append((step, f"reused operator instance {kind} differs from a fresh instance with the same arguments (in place: {inplace})"))
            new, touched = out, (h if inplace else None)
            if inplace and out is not handles[h]:
                probs.append((step, f"in-place application of {kind} returned another object"))
            if not inplace and out is handles[h]:
                probs.append((step, f"out-of-place application of {kind} returned its argument"))
            handles.append(out); kinds.append("sm")
        elif cmd[0] == "copy":
            h = pick(cmd[1])
            lines.append(f"h copy {h}")
            handles.append(handles[h].copy()); kinds.append("sm")
        elif cmd[0] == "simulate":
            h = pick(cmd[1])
            if handles[h].coords is not None and not np.issubdtype(np.asarray(handles[h].coords).dtype, np.integer):
                seq = [epg.T(30, 10), epg.S(np.array([[1.0, 0.0]]), kgrid=0.5) if np.asarray(handles[h].coords).shape[-1] >= 2 else epg.S(1), epg.ADC]
            else:
                seq = [epg.T(30, 10, order1=True), epg.E(5, 800, 50), epg.S(1), epg.ADC, epg.T(20, 0), epg.S(1), epg.Adc("Z0")]
            lines.append(f"h simulate {h}")
            optfp = repr(sorted((k, repr(v)) for k, v in handles[h].options.items()))
            try:
                with warnings.catch_warnings():
                    warnings.simplefilter("ignore")
                    a = epg.simulate(seq, init=handles[h], max_nstate=7, asarray=False)
                    b = epg.simulate(seq, init=handles[h], max_nstate=7, asarray=False)
                if any(np.asarray(x).tobytes() != np.asarray(y).tobytes() for x, y in zip(a, b)):
                    probs.append((step, "simulate() twice on the same sequence and init gave different results"))
                if repr(sorted((k, repr(v)) for k, v in handles[h].options.items())) != optfp:
                    probs.append((step, "simulate() altered the options of the caller's initial state matrix"))
            except Exception as exc:
                obs.append(("simulate raised", repr(exc)[:80]))
        else:
            h = pick(cmd[1])
            pr = [epg.Probe("states"), epg.Adc("F0"), epg.Probe(lambda sm: sm.states), epg.Adc("Z"), epg.Probe("F")][cmd[2]]
            lines.append(f"h acquire {h}")
            handles.append(pr.acquire(handles[h])); kinds.append("array")
        lines.append("hdump")
        prints = [fingerprint(x) for x in handles]
        changed = [i for i in range(len(before)) if before[i] != prints[i]]
        obs.append(("ok", changed, [i for i, x in enumerate(handles) if any(x is y for y in handles[:i])]))
    return lines, handles, kinds, obs, probs


def compare(r, epg, nhist, length):
    dis, checked = [], 0
    dist = {"steps": 0, "inplace": 0, "skipped": 0}
    for _ in range(nhist):
        hist = gen_history(r, int(r.integers(2, length + 1)))
        try:
            lines, handles, kinds, obs, probs = run_history(r, epg, hist)
        except Exception as exc:
            dis.append({"kind": "c09-history", "problems": [("harness/epgpy raised", repr(exc))], "input": {"history": hist}})
            continue
        out = lib.run_driver(lines)
        dumps = [o for o in out if o.startswith("heap ")]
        oks = [o for o in obs if o[0] == "ok"]
        dist["skipped"] += sum(1 for o in obs if o[0] != "ok")
        checked += 1
        problems = [(s, m) for s, m in probs]
        prev_versions = [0]
        for (tag, changed, _), dump in zip(oks, dumps):
            left, right = dump[5:].split("|")
            cells = [int(x) for x in left.split()]
            versions = [int(x) for x in right.split()]
            dist["steps"] += 1
            # (3) content of handles whose cell the model leaves untouched
            for i in changed:
                c = cells[i]
                if c < len(prev_versions) and versions[c] == prev_versions[c]:
                    problems.append((dist["steps"], f"handle {i} (cell {c}) changed although no in-place application targeted it"))
            prev_versions = versions
        # partial derivatives of one state matrix are separate objects with separate memory
        for i, hd in enumerate(handles):
            if kinds[i] != "sm":
                continue
            arrs = [(("o1", var), np.asarray(part.states)) for var, part in getattr(hd, "order1", {}).items()]
            arrs += [(("o2", frozenset(pair)), np.asarray(part.states)) for pair, part in getattr(hd, "order2", {}).items()]
            for x in range(len(arrs)):
                for y in range(x):
                    if arrs[x][0] == arrs[y][0]:
                        continue  # the two orderings of one variable pair are one entry
                    if np.shares_memory(arrs[x][1], arrs[y][1]):
                        problems.append(("end", f"handle {i}: partials {arrs[y][0]} and {arrs[x][0]} share memory"))
        # (1)/(2) object identity and memory sharing at the end of the history
        if dumps:
            left = dumps[-1][5:].split("|")[0]
            cells = [int(x) for x in left.split()]
            for i in range(len(handles)):
                for j in range(i):
                    same_model = cells[i] == cells[j]
                    same_real = handles[i] is handles[j]
                    if same_model != same_real:
                        problems.append(("end", f"handles {j},{i}: model same cell = {same_model}, real same object = {same_real}"))
                    if not same_model:
                        ai = [handles[i]] if kinds[i] == "array" else [a for _, a in arrays_of(handles[i]) if not _.startswith("system.")]
                        aj = [handles[j]] if kinds[j] == "array" else [a for _, a in arrays_of(handles[j]) if not _.startswith("system.")]
                        if any(np.shares_memory(x, y) for x in ai for y in aj):
                            problems.append(("end", f"handles {j},{i} are different objects but share array memory"))
        if problems:
            dis.append({"kind": "c09-history", "problems": problems[:4], "input": {"history": hist}})
    return checked, dis, dist


SEED_SCRIPT = r'''
import sys, hashlib, warnings
import numpy as np
warnings.simplefilter("ignore")
import epgpy as epg
from epgpy import sequence as sq
h = hashlib.sha1()
def put(x):
    a = np.asarray(x)
    h.update(str(a.shape).encode()); h.update(np.round(a, 11).astype(complex).tobytes())
necho = 6
seq = [epg.T(90, 90)] + [epg.E(4, 900, 40, order1=True, order2=True), epg.S(1), epg.T(150, 0, order1=True, order2=True), epg.S(1), epg.E(4, 900, 40, order1=True, order2=True), epg.ADC] * necho
put(epg.simulate(seq))
put(epg.simulate(seq, probe=epg.Jacobian(["alpha", "T2", "T1", "tau"])))
put(epg.simulate(seq, probe=epg.Hessian(["alpha", "T2"], ["T2", "alpha", "T1"])))
s = sq.Sequence([sq.T("a", 90), sq.E(5, "T1", "T2"), sq.S(1), sq.T("a" * 2, 0), sq.S(1), sq.E(5, "T1", "T2"), sq.ADC])
v = dict(a=40.0, T1=800.0, T2=45.0)
put(s.signal(**v)); put(s.jacobian(["T2", "a", "T1"], **v)[1]); put(s.hessian(["a", "T2", "T1"], **v)[2] if len(s.hessian(["a","T2","T1"], **v)) > 2 else s.hessian(["a","T2","T1"], **v)[-1])
put(s.crlb(["T2", "T1"], **v))
sm = epg.StateMatrix()
for op in [epg.T(30, 0), epg.S(np.array([[1, 0]])), epg.T(40, 10), epg.S(np.array([[0, 1]])), epg.T(20, 5), epg.S(np.array([[-1, 1]]))]:
    sm = op(sm)
put(sm.states); put(sm.coords)
print(h.hexdigest())
'''


def hashseed_sweep(seeds):
    digests = {}
    for s in seeds:
        env = dict(os.environ, PYTHONHASHSEED=str(s), PYTHONPATH=os.environ.get("EPGPY_REPO", "/repo"))
        p = subprocess.run(["/venv/bin/python", "-c", SEED_SCRIPT], capture_output=True, text=True, env=env, cwd="/tmp", timeout=600)
        digests[s] = (p.stdout.strip().splitlines() or ["<no output>"])[-1] if p.returncode == 0 else "ERR " + p.stderr.strip()[-200:]
    dis = []
    if len(set(digests.values())) != 1:
        dis.append({"kind": "c09-hashseed", "problems": [("results depend on PYTHONHASHSEED (digests of signals / Jacobians / Hessians / CRLB / n-D states rounded to 1e-11)", digests)],
                    "input": {"seeds": list(seeds)}})
    return len(digests), dis
