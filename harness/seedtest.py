#!/venv/bin/python
"""Run checks against a seeded change:  seedtest.py <patch> <demo> <prop> [<prop>...] [--tier quick]

Applies the patch to /repo (git apply), confirms the existing suite still passes and the
demonstration fails with the patch and passes without, runs the named checks, and ALWAYS
restores /repo (git checkout -- .).  Prints one summary line per check."""
import os
import subprocess
import sys

REPO = "/repo"
VERIF = os.path.dirname(os.path.dirname(os.path.abspath(__file__)))


def sh(cmd, **kw):
    p = subprocess.run(cmd, shell=isinstance(cmd, str), capture_output=True, text=True, **kw)
    return p.returncode, p.stdout + p.stderr


def main():
    args = [a for a in sys.argv[1:] if not a.startswith("--")]
    tier = "quick"
    for a in sys.argv[1:]:
        if a.startswith("--tier"):
            tier = a.split("=")[1]
    patch, demo, props = args[0], args[1], args[2:]
    rc, out = sh(f"git -C {REPO} status --porcelain")
    if out.strip():
        print("repo not clean:", out)
        sys.exit(2)
    env = dict(os.environ, PYTHONPATH=REPO)
    import shutil, tempfile
    tmpd = tempfile.mkdtemp(prefix="seedtest_")
    shutil.copy(demo, os.path.join(tmpd, "demo.py"))
    demo = os.path.join(tmpd, "demo.py")
    rc0, o0 = sh(["/venv/bin/python", demo], env=env, cwd="/tmp")
    print(f"demo without patch: exit {rc0} ({o0.strip().splitlines()[-1][:100] if o0.strip() else ''})")
    rc, out = sh(f"git -C {REPO} apply {patch}")
    if rc != 0:
        print("patch does not apply:", out)
        sys.exit(2)
    try:
        rc, out = sh("/venv/bin/python -m pytest -q -p no:cacheprovider 2>&1 | tail -1", cwd=REPO)
        print("suite with patch:", out.strip())
        rc1, o1 = sh(["/venv/bin/python", demo], env=env, cwd="/tmp")
        print(f"demo with patch: exit {rc1} ({o1.strip().splitlines()[-1][:100] if o1.strip() else ''})")
        for p in props:
            # evidence written while /repo is patched does not describe the unchanged tree: keep the committed one
            ev = os.path.join(VERIF, "evidence", f"{p}.json")
            saved = open(ev).read() if os.path.exists(ev) else None
            rc, out = sh([os.path.join(VERIF, "check"), p, "--tier", tier], cwd=VERIF)
            if saved is not None:
                with open(ev, "w") as f:
                    f.write(saved)
            lines = [l for l in out.splitlines() if l.startswith(("VIOLATION", "KNOWN", "CHECK-BROKEN"))]
            print(f"check {p}: exit {rc}  {lines[:3]}")
    finally:
        sh(f"git -C {REPO} checkout -- .")
        shutil.rmtree(tmpd, ignore_errors=True)
        rc, out = sh(f"git -C {REPO} status --porcelain")
        print("repo restored:", "clean" if not out.strip() else out)


if __name__ == "__main__":
    main()
