#!/venv/bin/python
"""retie.py <Group> [<Group>...] — maintenance tool, never run by a check.

After a reviewed change of /repo (a `fix:` commit) that touches source text tied by `Tie/<Group>.lean`, and after the
model has been re-read against the new text, copy the regenerated `Gen/<Group>.sites` into `Tie/<Group>.expected`."""
import os, re, subprocess, sys

V = os.path.dirname(os.path.dirname(os.path.abspath(__file__)))
subprocess.run(["/venv/bin/python", os.path.join(V, "harness/translate/translate.py"), "--out", os.path.join(V, "lean/EpgVerif/Gen")],
               check=False, capture_output=True)
for g in sys.argv[1:]:
    gen = open(os.path.join(V, f"lean/EpgVerif/Gen/{g}.lean")).read()
    tie_p = os.path.join(V, f"lean/EpgVerif/Tie/{g}.lean")
    tie = open(tie_p).read()
    a = gen.index("def sites : List (String × List String) := [") + len("def sites : List (String × List String) := [")
    b = gen.rindex("]\nend EpgVerif.Gen")
    body = gen[a:b]
    h = "def expected : List (String × List String) := ["
    a2 = tie.index(h) + len(h)
    b2 = tie.index("]\n\ntheorem sites_as_modelled")
    new = tie[:a2] + body + tie[b2:]
    if new != tie:
        open(tie_p, "w").write(new)
        print("re-tied", g)
    else:
        print("unchanged", g)
