"""Programs (operator sequences) as plain JSON-able dicts; conversion to epgpy objects and
to request lines of the Lean driver; structured random generation."""
import numpy as np
from lib import f2b, c2b

CORE_KINDS = ["T", "Phi", "E", "P", "R", "S", "SPOILER", "RESET", "PD", "WAIT"]


def to_epg(o, epg, **kw):
    k = o["op"]
    if k == "T":
        return epg.T(o["alpha"], o["phi"], **kw)
    if k == "Phi":
        return epg.Phi(o["phi"], **kw)
    if k == "E":
        return epg.E(o["tau"], o["T1"], o["T2"], o["g"], **kw)
    if k == "P":
        return epg.P(o["tau"], o["g"], **kw)
    if k == "R":
        rT = complex(o["rT_re"], o["rT_im"])
        return epg.R(rT, o["rL"], r0=o.get("r0"), **kw)
    if k == "S":
        return epg.S(int(o["k"]), nmax=o.get("nmax"))
    if k == "SPOILER":
        return epg.SPOILER
    if k == "RESET":
        return epg.RESET
    if k == "PD":
        return epg.PD(o["pd"], reset=bool(o["reset"]))
    if k == "WAIT":
        return epg.Wait(o.get("duration", 1.0))
    raise ValueError(k)


def to_line(o):
    k = o["op"]
    if k == "T":
        return f"T {f2b(o['alpha'])} {f2b(o['phi'])}"
    if k == "Phi":
        return f"Phi {f2b(o['phi'])}"
    if k == "E":
        return f"E {f2b(o['tau'])} {f2b(o['T1'])} {f2b(o['T2'])} {f2b(o['g'])}"
    if k == "P":
        return f"P {f2b(o['tau'])} {f2b(o['g'])}"
    if k == "R":
        r0 = "none" if o.get("r0") is None else f2b(o["r0"])
        return f"R {f2b(o['rT_re'])} {f2b(o['rT_im'])} {f2b(o['rL'])} {r0}"
    if k == "S":
        nm = "none" if o.get("nmax") is None else str(int(o["nmax"]))
        return f"S {int(o['k'])} {nm}"
    if k == "SPOILER":
        return "SPOILER"
    if k == "RESET":
        return "RESET"
    if k == "PD":
        return f"PD {f2b(o['pd'])} {1 if o['reset'] else 0}"
    if k == "WAIT":
        return "WAIT"
    raise ValueError(k)


def pick(r, lo, hi, special=(), pspecial=0.15):
    if special and r.random() < pspecial:
        return float(special[r.integers(len(special))])
    return float(r.uniform(lo, hi))


def gen_op(r, kind, truncate=False):
    if kind == "T":
        return {"op": "T", "alpha": pick(r, -360, 360, (0, 90, 180, -180)), "phi": pick(r, -360, 360, (0, 90, 180))}
    if kind == "Phi":
        return {"op": "Phi", "phi": pick(r, -360, 360, (0, 90))}
    if kind == "E":
        T1 = pick(r, 50, 3000)
        T2 = pick(r, 5, min(300, 2 * T1))
        return {"op": "E", "tau": pick(r, 0.01, 50, (0.0,), 0.08), "T1": T1, "T2": T2, "g": pick(r, -0.2, 0.2, (0.0,))}
    if kind == "P":
        return {"op": "P", "tau": pick(r, 0.01, 50, (0.0,), 0.08), "g": pick(r, -0.2, 0.2, (0.0,))}
    if kind == "R":
        o = {"op": "R", "rT_re": pick(r, 0, 2), "rT_im": pick(r, -3, 3, (0.0,)), "rL": pick(r, 0, 2)}
        o["r0"] = None if r.random() < 0.4 else pick(r, 0, 2)
        return o
    if kind == "S":
        k = int(r.integers(1, 4)) * (1 if r.random() < 0.6 else -1)
        o = {"op": "S", "k": k, "nmax": None}
        if truncate and r.random() < 0.3:
            o["nmax"] = int(r.integers(1, 5))
        return o
    if kind == "PD":
        return {"op": "PD", "pd": pick(r, 0.1, 2.0), "reset": bool(r.random() < 0.5)}
    if kind == "WAIT":
        return {"op": "WAIT", "duration": pick(r, 0, 10)}
    return {"op": kind}


DEFAULT_WEIGHTS = {"T": 5, "Phi": 1, "E": 4, "P": 1, "R": 1, "S": 5, "SPOILER": 0.7, "RESET": 0.3, "PD": 0.5, "WAIT": 0.3}


def gen_program(r, length, kinds=None, weights=None, truncate=False):
    kinds = kinds or CORE_KINDS
    w = np.array([(weights or DEFAULT_WEIGHTS).get(k, 1.0) for k in kinds], dtype=float)
    w /= w.sum()
    return [gen_op(r, kinds[r.choice(len(kinds), p=w)], truncate=truncate) for _ in range(length)]


def gen_init(r, nmax=3):
    """random conjugate-symmetric initial state matrix (or None for equilibrium)"""
    pd = pick(r, 0.2, 2.0, (1.0,), 0.4)
    if r.random() < 0.35:
        return None, pd
    n = int(r.integers(0, nmax + 1))
    fp = r.normal(size=2 * n + 1) + 1j * r.normal(size=2 * n + 1)
    z = r.normal(size=2 * n + 1) + 1j * r.normal(size=2 * n + 1)
    z = 0.5 * (z + z[::-1].conj())
    st = np.stack([fp, fp[::-1].conj(), z], axis=-1) * 0.5
    return st, pd


def init_line(st, pd):
    if st is None:
        return f"init {f2b(pd)}"
    n = (st.shape[0] - 1) // 2
    vals = " ".join(c2b(v) for v in st.reshape(-1))
    return f"initst {n} {f2b(pd)} {vals}"
