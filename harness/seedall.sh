#!/bin/bash
# Regression of the kept seeded changes: every patch must still apply, keep the suite green, fail its demo and be caught
# by the checks named in its meta.json ("caught_by": the seed's own property first where it catches it).
# Patches /repo temporarily (restored after each seed): run nothing else meanwhile.
cd "$(dirname "$0")/.."
V=$(pwd)
out=seeded/RESULTS.txt
: > $out
for d in seeded/*/; do
  n=$(basename $d)
  props=$(/venv/bin/python -c "
import json,sys,re
m=json.load(open('$d/meta.json'))
ps=[p for p in m.get('caught_by',[]) if re.fullmatch(r'C\d\d',p.strip())]
own='$n'.split('-')[0]
print(' '.join(dict.fromkeys(([own] if own in ps or not ps else [])+[p.strip() for p in ps])))")
  demo=$(ls $d/demo* | head -1)
  res=$(/venv/bin/python harness/seedtest.py $V/${d}patch.diff $V/$demo $props 2>&1 | tr '\n' '|')
  echo "$n :: $res" >> $out
done
echo done >> $out
