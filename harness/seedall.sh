#!/bin/bash
# Regression of the kept seeded changes: every patch must still apply, keep the suite green, fail its demo and be caught
# by the check of its property.  Patches /repo temporarily (restored after each seed): run nothing else meanwhile.
cd "$(dirname "$0")/.."
V=$(pwd)
out=seeded/RESULTS.txt
: > $out
for d in seeded/*/; do
  n=$(basename $d)
  p=${n%%-*}
  demo=$(ls $d/demo* | head -1)
  res=$(/venv/bin/python harness/seedtest.py $V/${d}patch.diff $V/$demo $p 2>&1 | tr '\n' '|')
  echo "$n :: $res" >> $out
done
echo done >> $out
