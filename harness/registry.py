"""Per-property configuration of ./check: Lean modules, tie obligations, correspondence runs,
failing-input searches, known-finding matching and replay."""
import collections
import glob
import hashlib
import json
import os

import numpy as np

import lib

VERIF = lib.VERIF


def epg():
    import epgpy

    return epgpy


def case_hash(case):
    return hashlib.sha1(json.dumps(lib.jsonable(case), sort_keys=True).encode()).hexdigest()


def load_corpus(prop):
    cases = []
    for fn in sorted(glob.glob(os.path.join(VERIF, "harness", "corpus", prop, "*.json"))):
        cases.append(json.load(open(fn)))
    return cases


def decode_case(case):
    """JSON -> in-memory case (complex initial states)"""
    case = dict(case)
    st, pd = case["init"]
    if isinstance(st, dict):
        st = np.asarray(st["re"]) + 1j * np.asarray(st["im"])
    elif st is not None:
        st = np.asarray(st)
    case["init"] = (st, pd)
    return case


def budget(tier, quick, thorough):
    return thorough if tier == "thorough" else quick


# ---------------------------------------------------------------------------
# generic core runner (C01, C08, C14 share the 1-D state model)


def shrink_core(case, still_fails):
    prog_ = list(case["program"])
    i = 0
    while i < len(prog_):
        cand = dict(case, program=prog_[:i] + prog_[i + 1:])
        if cand["program"] and still_fails(cand):
            prog_ = cand["program"]
        else:
            i += 1
    return dict(case, program=prog_)


def run_core(ctx, stream, ncase, maxlen, kinds=None, truncate=False, with_bloch=True, filt=None):
    import core

    r = lib.rng(stream)
    cases = [decode_case(c) for c in load_corpus(ctx.prop)] + core.gen_cases(r, ncase, maxlen=maxlen, truncate=truncate, kinds=kinds)
    E = epg()
    checked, dis = core.compare(cases, E, with_bloch=with_bloch)
    firsts = {}
    for d in dis:
        firsts.setdefault(d["case"], d)
    for ci, d in list(firsts.items())[:8]:
        case = cases[ci]
        if "op_index" in d:
            case = dict(case, program=case["program"][: d["op_index"] + 1])

        def still(c, kind=d["kind"]):
            _, dd = core.compare([c], E, with_bloch=with_bloch)
            return any(x["kind"] == kind for x in dd)

        try:
            small = shrink_core(case, still)
            _, dd = core.compare([small], E, with_bloch=with_bloch)
            dd = [x for x in dd if x["kind"] == d["kind"]]
            if dd:
                d = dict(dd[0], input=small)
        except Exception:
            pass
        ctx.violations.append(d)
    for ci, d in list(firsts.items())[8:]:
        ctx.violations.append(d)
    dist = collections.Counter()
    lens = collections.Counter()
    modes = collections.Counter()
    nontriv = set()
    for c in cases:
        for o in c["program"]:
            dist[o["op"]] += 1
        lens[min(len(c["program"]) // 10 * 10, 90)] += 1
        modes[c.get("mode", "apply")] += 1
        if core.nontrivial(c):
            nontriv.add(case_hash(c))
    return {
        "evaluations": checked,
        "distinct_nontrivial": len(nontriv),
        "programs": len(cases),
        "rule": "random programs over the modelled operator kinds (weights in harness/prog.py), random conjugate-symmetric "
                "initial states n<=3, boundary parameters with p=0.15; compared after every operator; non-trivial = at least "
                "two operator kinds including an RF pulse; distinct by SHA-1 of the case",
        "samples": [lib.jsonable(c) for c in cases[:2]],
        "distribution": {"op_kinds": dict(dist), "length_buckets": {str(k): v for k, v in sorted(lens.items())},
                         "modes": dict(modes), "disagreeing_cases": len(firsts)},
    }


def run_C01(ctx, proof_ok):
    n = budget(ctx.tier, 300, 6000)
    return run_core(ctx, 1, n, maxlen=budget(ctx.tier, 30, 60))


def run_wide_wf(ctx, stream, ncase, maxlen):
    """search on the real code: C08's well-formedness after every operator of wide programs"""
    import warnings
    import wide

    E = epg()
    r = lib.rng(stream)
    dist = collections.Counter()
    errs = collections.Counter()
    nontriv = set()
    checked = 0
    samples = []
    for i in range(ncase):
        batch = [None, (2,), (3, 1), (1, 2)][r.integers(4)] if r.random() < 0.4 else None
        if r.random() < 0.15:
            case = wide.gen_exchange(r, int(r.integers(1, maxlen + 1)))
        else:
            case = wide.gen_wide(r, int(r.integers(1, maxlen + 1)), batch=batch)
        if i < 2:
            samples.append(case)
        dist["mode:" + case["mode"]] += 1
        dist["batch:" + str(case["batch"])] += 1
        try:
            with warnings.catch_warnings():
                warnings.simplefilter("ignore")
                if case.get("density"):
                    sm = E.StateMatrix(density=case["density"], **case["options"])
                else:
                    sm = E.StateMatrix(**case["options"])
                for j, o in enumerate(case["program"]):
                    op = wide.build_op(o, E)
                    sm = op(sm, inplace=True)
                    dist[o["op"]] += 1
                    checked += 1
                    v = wide.wf_violations(sm)
                    if v:
                        ctx.violations.append({"kind": "wide-wf", "what": v, "op_index": j, "op": o,
                                               "input": dict(case, program=case["program"][: j + 1])})
                        break
            if len({o["op"] for o in case["program"]}) >= 2:
                nontriv.add(case_hash(case))
        except Exception as exc:  # crashes are not well-formedness violations (see C07 / C20)
            errs[type(exc).__name__] += 1
    return {"evaluations": checked, "distinct_nontrivial": len(nontriv), "samples": samples,
            "distribution": {"wide": dict(dist), "wide_exceptions": dict(errs)}}


def merge_results(a, b, rule):
    out = dict(a)
    out["evaluations"] = a["evaluations"] + b["evaluations"]
    out["distinct_nontrivial"] = a["distinct_nontrivial"] + b["distinct_nontrivial"]
    out["samples"] = a["samples"][:2] + b["samples"][:2]
    out["distribution"] = {**a.get("distribution", {}), **b.get("distribution", {})}
    out["rule"] = rule
    return out


def run_C08(ctx, proof_ok):
    a = run_core(ctx, 8, budget(ctx.tier, 300, 5000), maxlen=budget(ctx.tier, 30, 60), truncate=True, with_bloch=False)
    b = run_wide_wf(ctx, 108, budget(ctx.tier, 400, 12000), maxlen=budget(ctx.tier, 14, 30))
    return merge_results(a, b, a["rule"] + " || wide search: well-formedness clauses of C08 evaluated on the live epgpy "
                         "StateMatrix after every operator of random programs over ALL operator kinds (1-D/n-D/float shifts, "
                         "G, C, D, truncation, pruning, batch shapes)")


# ---------------------------------------------------------------------------
# known findings: predicates keyed by finding id (the committed file lists which are active)

KNOWN_PREDICATES = {}


def match_known(prop, violation, known):
    for kf in known.get("findings", []):
        props = kf["property"] if isinstance(kf["property"], list) else [kf["property"]]
        if prop not in props:
            continue
        pred = KNOWN_PREDICATES.get(kf["id"])
        if pred and pred(violation):
            return kf
    return None


def replay(ctx, spec, path):
    data = json.load(open(path if os.path.isabs(path) else os.path.join(VERIF, path)))
    if data.get("input") is None:
        print("replay: this file records a broken proof obligation / tie without a failing input:")
        for b in data.get("broken", []):
            print("  ", b)
        return 1
    fn = spec.get("replay")
    if fn is None:
        print("no replay function for this property")
        return 2
    return fn(ctx, data)


def replay_core(ctx, data):
    import core

    case = decode_case(data["input"])
    _, dd = core.compare([case], epg(), with_bloch=True)
    for d in dd:
        print("still disagrees:", d["kind"], d.get("op"), d.get("max_abs_diff"))
    print("replay:", "VIOLATION reproduced" if dd else "no disagreement any more")
    return 1 if dd else 0


TIE_OP = ["TieTOp", "TiePhiOp", "TieEOp", "TiePOp", "TieROp"]
TIE_D1 = ["TieTD1", "TiePhiD1", "TieED1", "TiePD1", "TieRD1"]
TIE_D2 = ["TieTD2", "TiePhiD2", "TieED2", "TiePD2", "TieRD2"]

PROPS = {
    "C01": {
        "lean_modules": ["EpgVerif.Props.C01"],
        "tie": TIE_OP,
        "audit": "EpgVerif/Audit/C01.lean",
        "run": run_C01,
        "replay": replay_core,
        "partial": ["truncated programs (max_nstate / nmax) are excluded from the theorem: they are the subject of C13"],
    },
}
PROPS["C08"] = {
    "lean_modules": ["EpgVerif.Props.C08"],
    "tie": TIE_OP,
    "audit": "EpgVerif/Audit/C08.lean",
    "run": run_C08,
    "replay": replay_core,
    "partial": ["the theorem covers the 1-D state model (T, Phi, E, P, R, 1-D shift with truncation, Spoiler, Reset, PD, Wait); "
                "n-D / gridded shifts, D and X are covered by the search on the real code only"],
}

NOT_CLAIMED = {}
