"""Per-property configuration of ./check: Lean modules, tie obligations, correspondence runs,
failing-input searches, known-finding matching and replay."""
import collections
import sys
import glob
import hashlib
import json
import os

import numpy as np

import lib

VERIF = lib.VERIF


def epg():
    import epgpy

    return epgpy


def case_hash(case):
    return hashlib.sha1(json.dumps(lib.jsonable(case), sort_keys=True).encode()).hexdigest()


def load_corpus(prop):
    cases = []
    for fn in sorted(glob.glob(os.path.join(VERIF, "harness", "corpus", prop, "*.json"))):
        cases.append(json.load(open(fn)))
    return cases


def decode_case(case):
    """JSON -> in-memory case (complex initial states)"""
    case = dict(case)
    st, pd = case["init"]
    if isinstance(st, dict):
        st = np.asarray(st["re"]) + 1j * np.asarray(st["im"])
    elif st is not None:
        st = np.asarray(st)
    case["init"] = (st, pd)
    return case


def budget(tier, quick, thorough):
    return thorough if tier == "thorough" else quick


# ---------------------------------------------------------------------------
# generic core runner (C01, C08, C14 share the 1-D state model)


def shrink_core(case, still_fails):
    prog_ = list(case["program"])
    i = 0
    while i < len(prog_):
        cand = dict(case, program=prog_[:i] + prog_[i + 1:])
        if cand["program"] and still_fails(cand):
            prog_ = cand["program"]
        else:
            i += 1
    return dict(case, program=prog_)


def run_core(ctx, stream, ncase, maxlen, kinds=None, truncate=False, with_bloch=True, filt=None):
    import core

    r = lib.rng(stream)
    cases = [decode_case(c) for c in load_corpus(ctx.prop)] + core.gen_cases(r, ncase, maxlen=maxlen, truncate=truncate, kinds=kinds)
    E = epg()
    checked, dis = core.compare(cases, E, with_bloch=with_bloch)
    firsts = {}
    for d in dis:
        firsts.setdefault(d["case"], d)
    for ci, d in list(firsts.items())[:8]:
        case = cases[ci]
        if "op_index" in d:
            case = dict(case, program=case["program"][: d["op_index"] + 1])

        def still(c, kind=d["kind"]):
            _, dd = core.compare([c], E, with_bloch=with_bloch)
            return any(x["kind"] == kind for x in dd)

        try:
            small = shrink_core(case, still)
            _, dd = core.compare([small], E, with_bloch=with_bloch)
            dd = [x for x in dd if x["kind"] == d["kind"]]
            if dd:
                d = dict(dd[0], input=small)
        except Exception:
            pass
        ctx.violations.append(d)
    for ci, d in list(firsts.items())[8:]:
        ctx.violations.append(d)
    dist = collections.Counter()
    lens = collections.Counter()
    modes = collections.Counter()
    nontriv = set()
    for c in cases:
        for o in c["program"]:
            dist[o["op"]] += 1
        lens[min(len(c["program"]) // 10 * 10, 90)] += 1
        modes[c.get("mode", "apply")] += 1
        if core.nontrivial(c):
            nontriv.add(case_hash(c))
    return {
        "evaluations": checked,
        "distinct_nontrivial": len(nontriv),
        "programs": len(cases),
        "rule": "random programs over the modelled operator kinds (weights in harness/prog.py), random conjugate-symmetric "
                "initial states n<=3, boundary parameters with p=0.15; compared after every operator; non-trivial = at least "
                "two operator kinds including an RF pulse; distinct by SHA-1 of the case",
        "samples": [lib.jsonable(c) for c in cases[:2]],
        "distribution": {"op_kinds": dict(dist), "length_buckets": {str(k): v for k, v in sorted(lens.items())},
                         "modes": dict(modes), "disagreeing_cases": len(firsts)},
    }


def run_C01(ctx, proof_ok):
    import simc

    n = budget(ctx.tier, 300, 6000)
    res = run_core(ctx, 1, n, maxlen=budget(ctx.tier, 30, 60))
    # "every value returned by simulate() is the magnetisation at that instant": also for probes returning several values
    n2, d2, dist2 = simc.search_snapshots(lib.rng(101), epg(), budget(ctx.tier, 80, 1500))
    ctx.violations.extend(d2)
    res["evaluations"] += n2
    res["distribution"]["snapshot_cases"] = n2
    res["rule"] += "; probes returning several quantities followed by in-place operators vs out-of-place manual stepping"
    return res


def run_wide_wf(ctx, stream, ncase, maxlen):
    """search on the real code: C08's well-formedness after every operator of wide programs"""
    import warnings
    import wide

    E = epg()
    r = lib.rng(stream)
    dist = collections.Counter()
    errs = collections.Counter()
    nontriv = set()
    checked = 0
    samples = []
    for i in range(ncase):
        batch = [None, (2,), (3, 1), (1, 2)][r.integers(4)] if r.random() < 0.4 else None
        u = r.random()
        if u < 0.15:
            case = wide.gen_exchange(r, int(r.integers(1, maxlen + 1)))
        elif u < 0.35:
            # focus: n-D integer shifts under a small state cap (cropping branch of shiftnd)
            case = wide.gen_wide(r, int(r.integers(3, maxlen + 1)), mode="nd", batch=batch, allow=["T", "E", "S", "T", "S", "SPOILER"])
            case["options"]["max_nstate"] = int(r.integers(1, 4))
            case["options"].pop("prune", None)
            case["mode"] = "nd-capped"
        elif u < 0.45:
            # focus: stimulated-echo-like histories with diffusion right after the gradient (D with its `k` argument)
            case = wide.gen_wide(r, int(r.integers(4, maxlen + 1)), mode=["1d", "nd"][i % 2], batch=batch,
                                 allow=["T", "S", "D", "T", "S", "D", "E"])
            case["options"].pop("max_nstate", None)
            case["options"]["kvalue"] = 2e4
            case["mode"] = "diffusion-focus"
        else:
            case = wide.gen_wide(r, int(r.integers(1, maxlen + 1)), batch=batch)
        if case["mode"] in ("1d", "nd", "nd-capped") and any(o["op"] == "D" for o in case["program"]) and i % 2 == 0:
            case["options"]["kvalue"] = 2e4      # integer wavenumbers in units large enough for diffusion to act
        if i < 2:
            samples.append(case)
        dist["mode:" + case["mode"]] += 1
        dist["batch:" + str(case["batch"])] += 1
        try:
            with warnings.catch_warnings():
                warnings.simplefilter("ignore")
                if case.get("density"):
                    sm = E.StateMatrix(density=case["density"], **case["options"])
                else:
                    sm = E.StateMatrix(**case["options"])
                for j, o in enumerate(case["program"]):
                    op = wide.build_op(o, E)
                    sm = op(sm, inplace=True)
                    dist[o["op"]] += 1
                    checked += 1
                    v = wide.wf_violations(sm)
                    if v:
                        ctx.violations.append({"kind": "wide-wf", "what": v, "op_index": j, "op": o,
                                               "input": dict(case, program=case["program"][: j + 1])})
                        break
            if len({o["op"] for o in case["program"]}) >= 2:
                nontriv.add(case_hash(case))
        except Exception as exc:  # crashes are not well-formedness violations (see C07 / C20)
            errs[type(exc).__name__] += 1
    return {"evaluations": checked, "distinct_nontrivial": len(nontriv), "samples": samples,
            "distribution": {"wide": dict(dist), "wide_exceptions": dict(errs)}}


def run_wide_norm(ctx, stream, ncase, maxlen):
    """search on the real code (C14): norm preserved by T / Phi / P / untruncated non-merging shifts, deviation from
    equilibrium never increased by E / D / SPOILER, |F0| <= PD when T2 <= 2 T1"""
    import warnings
    import wide

    E = epg()
    from epgpy import utils as U

    r = lib.rng(stream)
    dist, errs, nontriv, checked, samples = collections.Counter(), collections.Counter(), set(), 0, []
    ISO = {"T", "Phi", "P", "S", "Snd", "Sf", "G", "C", "WAIT"}
    CONTRACT = {"E", "SPOILER", "D"}
    for i in range(ncase):
        batch = [None, (2,), (3, 1), (1, 2)][r.integers(4)] if r.random() < 0.45 else None
        mode = ["1d", "nd", "float", "grad", "mixed"][r.integers(5)]
        case = wide.gen_wide(r, int(r.integers(2, maxlen + 1)), mode=mode, batch=batch, lossless=True,
                             allow=["T", "E", "S", "Phi", "P", "SPOILER", "WAIT", "D"])
        if i < 2:
            samples.append(case)
        dist["mode:" + case["mode"]] += 1
        try:
            with warnings.catch_warnings():
                warnings.simplefilter("ignore")
                sm = E.StateMatrix(**case["options"])
                pd = 1.0
                for j, o in enumerate(case["program"]):
                    before = np.array(sm.norm, dtype=float)
                    dev_before = np.asarray(U.get_norm(np.asarray(sm.states) - np.asarray(sm.equilibrium)))
                    op = wide.build_op(o, E)
                    sm = op(sm, inplace=True)
                    after = np.array(sm.norm, dtype=float)
                    dev_after = np.asarray(U.get_norm(np.asarray(sm.states) - np.asarray(sm.equilibrium)))
                    dist[o["op"]] += 1
                    checked += 1
                    bad = None
                    if o["op"] in ISO:
                        b, a = np.broadcast_arrays(before, after)
                        if not np.allclose(a, b, rtol=1e-9, atol=1e-12):
                            bad = ("norm changed by a lossless operator", float(np.max(np.abs(a - b))))
                    elif o["op"] in CONTRACT:
                        b, a = np.broadcast_arrays(dev_before, dev_after)
                        if np.any(a > b * (1 + 1e-9) + 1e-12):
                            bad = ("deviation from equilibrium increased by a dissipative operator", float(np.max(a - b)))
                    f0 = np.abs(np.asarray(sm.F0))
                    if bad is None and np.any(f0 > pd * (1 + 1e-9) + 1e-12):
                        bad = ("|F0| above the proton density", float(np.max(f0)))
                    if bad:
                        ctx.violations.append({"kind": "wide-norm", "what": bad, "op_index": j, "op": o,
                                               "input": dict(case, program=case["program"][: j + 1])})
                        break
            if len({o["op"] for o in case["program"]}) >= 2:
                nontriv.add(case_hash(case))
        except Exception as exc:
            errs[type(exc).__name__] += 1
    return {"evaluations": checked, "distinct_nontrivial": len(nontriv), "samples": samples,
            "distribution": {"norm_search": dict(dist), "norm_search_exceptions": dict(errs)}}


def run_C14(ctx, proof_ok):
    a = run_core(ctx, 14, budget(ctx.tier, 200, 3000), maxlen=budget(ctx.tier, 30, 60), with_bloch=False)
    b = run_wide_norm(ctx, 114, budget(ctx.tier, 500, 15000), maxlen=budget(ctx.tier, 14, 30))
    import ndc
    ng, dg = ndc.search_axis_grids(lib.rng(1141), epg(), budget(ctx.tier, 50, 1200))
    nh, dh = ndc.compare_grid_helpers(lib.rng(1142), epg(), budget(ctx.tier, 200, 4000))
    ctx.violations.extend(dg + dh)
    b["evaluations"] += ng + nh
    b["distribution"] = {**b.get("distribution", {}), "axis_grid_cases": ng, "grid_helper_calls": nh}
    return merge_results(a, b, a["rule"] + " || per-axis kgrid forms on the merging / pruning back-ends hold the states (hence the norm) "
                         "of the integer back-end when the grid does not merge; shift.get_grid vs Shp.getGrid || norm search on the real code: random programs of T/Phi/P/E/D/SPOILER/shifts in all "
                         "back-ends (1-D, n-D integer incl. batched vectors, float gridded, G, C), no pruning option, caps never "
                         "exceeded; sm.norm compared before/after each lossless operator per batch element, deviation norm "
                         "non-increasing for E/D/SPOILER, |F0| <= PD throughout (T2 <= 2 T1 in the generator)")


def run_C13(ctx, proof_ok):
    import c13

    a = run_core(ctx, 13, budget(ctx.tier, 250, 4000), maxlen=budget(ctx.tier, 30, 60), truncate=True, with_bloch=False)
    E = epg()
    r = lib.rng(113)
    n1, d1, dist = c13.horizon(r, E, budget(ctx.tier, 200, 5000))
    n2, d2 = c13.merge_exact(r, E, budget(ctx.tier, 120, 3000))
    n3, d3 = c13.partials_pruner(r, E, budget(ctx.tier, 40, 600))
    n4, d4 = c13.prune_bound(r, E, budget(ctx.tier, 120, 3000))
    import ndc
    rc = lib.rng(1313)
    n5, d5, dist5 = ndc.compare_cap([ndc.gen_cap_case(rc) for _ in range(budget(ctx.tier, 150, 3000))], E)
    for d in d1 + d2 + d3 + d4 + d5:
        ctx.violations.append(d)
    a["evaluations"] += n1 + n2 + n3 + n4 + n5
    a["distribution"]["capped_nd_tables"] = dict(dist5, programs=n5)
    a["distribution"].update({"horizon_acquisitions": n1, "horizon_programs": dist, "merge_cases": n2, "pruner_cases": n3,
                              "prune_bound_acquisitions": n4})
    a["rule"] += (" || searches on the real code: truncated (max_nstate=n) vs untruncated simulate() over random signed step "
                  "sequences in 1-D and n-D, acquisitions compared while the accumulated |shift| per component <= 2n+1, stored "
                  "indices <= n; gridded shifts fine vs coarse grid (sum of amplitudes at x=0 equal, bound at x); PartialsPruner "
                  "(batched T2) bound threshold x removals; pruning bound 2*eps*cumulative states || correspondence capped n-D: random "
                  "integer n-D programs (1-3 gradient axes, integer time accumulation C(m)) under max_nstate / S(nmax=): the state "
                  "table of epgpy vs `NDS.capRun` (Lean, `table_cap_horizon` / `table_cap_bound` are about exactly this table)")
    return a


def run_C10(ctx, proof_ok):
    import combc

    E = epg()
    r = lib.rng(10)
    n1, d1, dist = combc.compare_combine(r, E, budget(ctx.tier, 400, 8000))
    n2, d2 = combc.compare_nesting(r, E, budget(ctx.tier, 250, 5000))
    import c09
    n3, d3 = c09.nested_program_history(lib.rng(1011), E, budget(ctx.tier, 60, 1200))
    n4, d4 = combc.compare_arraytuple(lib.rng(1012), budget(ctx.tier, 600, 12000))
    ctx.violations.extend(d1 + d2 + d3 + d4)
    ctx.violations.extend(combc.probe_F7(E))
    n2 = n2 + n3 + n4
    return {"evaluations": n1 + n2, "distinct_nontrivial": dist["with_decl"] + n2,
            "rule": "common.ArrayTuple (+, +=, *, *=, scalar forms, unary minus; None parts; ints, 0-d and 1-d arrays) vs the Lean "
                    "definitions ATuple.* (Props/C10Tuple.lean) || combine: random chains (2-4) of operators `@` accepts (E.., P.., R.., T.., Phi.., T mixed with E), parameters "
                    "scalar or arrays over batch shapes (), (2,), (3,), (2,1), (1,3), (2,3), identity-named declarations first "
                    "order / first+second order, left and right association, input state with or without foreign partials; "
                    "(a@b)(sm) vs b(a(sm)) on states, order1, order2, shape, duration || nesting: the same operator objects "
                    "flat, nested in lists and grouped with `*` (incl. right-nested groups): identical simulate() results and "
                    "multi-operator duration / nshift / shape; nested program lists edited in place (item replaced / appended / made "
                    "batched) between uses: simulate, get_adc_times, getnshift, getshape vs the flat sequence; non-trivial = chain "
                    "with declarations / any nesting case",
            "samples": [lib.jsonable(combc.describe(combc.gen_chain(lib.rng(1010))))],
            "distribution": {"combine": dist, "combine_checks": n1, "nesting_checks": n2}}


def unjson(x):
    """inverse of lib.jsonable for the shapes used in replay inputs"""
    if isinstance(x, dict):
        if set(x) == {"re", "im"}:
            v = np.asarray(x["re"], dtype=float) + 1j * np.asarray(x["im"], dtype=float)
            return complex(v) if v.ndim == 0 else v
        return {k: unjson(v) for k, v in x.items()}
    if isinstance(x, list):
        return [unjson(v) for v in x]
    return x


def replay_generic(ctx, data):
    """re-run the recorded input on the current /repo (and on the model where the violation came from a correspondence);
    exit 1 when the disagreement is still there, 0 when it is gone; searches that draw further random choices only print"""
    kind = data.get("kind", "")
    inp = unjson(data.get("input"))
    print("replay of", kind)
    print("input:", json.dumps(data.get("input"))[:1500])
    print("problems recorded:", json.dumps(data.get("problems"))[:800])
    E = epg()
    dd = None
    try:
        if isinstance(inp, dict) and "init" in inp and isinstance(inp["init"], list):
            inp["init"] = (None if inp["init"][0] is None else np.asarray(inp["init"][0]), inp["init"][1])
        if kind == "model-vs-epgpy simulate":
            import simc
            _, dd, _ = simc.compare([inp], E)
        elif kind == "model-vs-epgpy rfpulse":
            import rfc
            inp["values"] = np.asarray(inp["values"], dtype=complex)
            _, dd = rfc.compare([inp], E)
        elif kind == "model-vs-epgpy nd":
            import ndc
            _, dd, _ = ndc.compare([inp], E)
        elif kind in ("c13-cap", "c13-cap-raised"):
            import ndc
            _, dd, _ = ndc.compare_cap([inp], E)
        elif kind == "model-vs-epgpy diffusion":
            import difc
            _, dd = difc.compare([inp], E)
        elif kind == "model-vs-epgpy exchange":
            import exc
            _, dd = exc.compare([inp], E)
        elif kind == "model-vs-epgpy imaging":
            import imgc
            if isinstance(inp.get("modulation"), (int, float)):
                inp["modulation"] = complex(inp["modulation"])
            _, dd, _ = imgc.compare([inp], E)
        elif kind == "c09-history":
            import heapc
            hist = [tuple(c) for c in inp["history"]]
            lines, handles, kinds_, obs, probs = heapc.run_history(lib.rng(9), E, hist)
            dd = [{"kind": kind, "problems": probs}] if probs else []
            print("(aliasing / untouched-content comparison against the model needs the full check; object-level problems re-run)")
    except Exception as exc:
        print("replay could not re-run the input:", repr(exc))
        return 1
    if dd is None:
        # the search that found this input draws every random choice from VERIF_SEED: re-run the property's
        # correspondence + search under the recorded seed and tier and look for a violation of the same kind
        os.environ["VERIF_SEED"] = str(data.get("seed", 0))
        ctx.tier = data.get("tier", "quick")
        print(f"replay: re-running the {ctx.prop} search with VERIF_SEED={os.environ['VERIF_SEED']} tier={ctx.tier}")
        ctx.violations = []
        PROPS[ctx.prop]["run"](ctx, True)
        known = json.load(open(os.path.join(VERIF, "known_findings.json")))
        dd = [v for v in ctx.violations if not match_known(ctx.prop, v, known)]
        same = [v for v in dd if v.get("kind") == kind]
        for d in (same or dd)[:3]:
            print("still fails:", d.get("kind"), json.dumps(lib.jsonable(d.get("problems", d.get("error"))))[:600])
        print("replay:", "VIOLATION reproduced" if same else ("another violation of this property found" if dd else "no violation any more"))
        return 1 if dd else 0
    for d in dd:
        print("still disagrees:", d.get("kind"), json.dumps(lib.jsonable(d.get("problems")))[:600])
    print("replay:", "VIOLATION reproduced" if dd else "no disagreement any more")
    return 1 if dd else 0


def run_C16(ctx, proof_ok):
    import collc
    import itertools

    r = lib.rng(16)
    hs = [collc.gen_history(r, int(r.integers(1, 40))) for _ in range(budget(ctx.tier, 500, 6000))]
    depth = budget(ctx.tier, 2, 3)
    ex = list(collc.exhaustive_histories(depth))
    n1, d1 = collc.compare_coll(ex)
    n2, d2 = collc.compare_coll(hs)
    ctx.violations.extend(d1 + d2)
    # StateMatrix wrappers inherit: copy / resize / expand / reduce / stack / unstack
    n3, d3 = collc.statematrix_wrappers(r, budget(ctx.tier, 150, 3000))
    ctx.violations.extend(d3)
    kinds = collections.Counter(op[0] for h in hs for op in h)
    return {"evaluations": n1 + n2 + n3, "distinct_nontrivial": len({case_hash({"h": lib.jsonable(h)}) for h in hs if len(h) > 3}) + len(ex),
            "exhaustive": False,
            "rule": f"exhaustive histories of length {depth} over 3 shapes x 4 layouts + 9 other calls, both expand-axis conventions "
                    "(shape/axes/error class vs the Lean state machine, values/independence/guarantees on the live object), then "
                    "random histories of length <= 40 over 11 shapes and 9 layouts (ellipsis with fixed, named, free axes); "
                    "StateMatrix copy/resize/expand/reduce/stack/unstack wrappers; non-trivial = history longer than 3 calls",
            "samples": [lib.jsonable(hs[0]), lib.jsonable(ex[len(ex) // 2])],
            "distribution": {"calls": dict(kinds), "exhaustive_histories": len(ex), "exhaustive_steps": n1, "random_steps": n2,
                             "statematrix_wrapper_checks": n3}}


def run_C07(ctx, proof_ok):
    import c07

    E = epg()
    r = lib.rng(7)
    n1, d1 = c07.vec_vs_scalar(r, E, budget(ctx.tier, 400, 6000))
    n2, d2 = c07.axes_placement(r, E, budget(ctx.tier, 40, 800))
    n3, d3 = c07.incompatible_raise(r, E, budget(ctx.tier, 40, 800))
    n4, d4 = c07.shapes_vs_model(r, budget(ctx.tier, 400, 10000))
    n5, d5 = c07.ndim_mismatch_sweep(r, E)
    n6, d6 = c07.grid3_vs_scalar(lib.rng(707), E, budget(ctx.tier, 30, 600))
    n7, d7 = c07.batched_ops_vs_scalar(lib.rng(708), E, budget(ctx.tier, 40, 800))
    n8, d8 = c07.shape_helpers_vs_model(lib.rng(709), budget(ctx.tier, 400, 8000))
    n9, d9 = c07.adc_phase_reuse(lib.rng(710), E, budget(ctx.tier, 12, 200))
    n4 += n8
    n7 += n9
    ctx.violations.extend(d1 + d2 + d3 + d4 + d5 + d6 + d7 + d8 + d9)
    return {"evaluations": n1 + n2 + n3 + n4 + n5 + n6 + n7, "distinct_nontrivial": n1 + n2 + n5 + n6 + n7,
            "rule": "metamorphic search on the real code: sequences of T/E/P/Phi/R/PD/S/SPOILER whose parameters are arrays over "
                    "sub-shapes (singleton axes, fewer axes) of a random grid, with identity-named first-order declarations and "
                    "automatic second order; vectorised simulate() (ADC, Z0, Jacobian, Hessian) vs the scalar simulation at EVERY "
                    "index of the broadcast grid, output shape = (nADC,)+getshape; `axes=` vs explicit singleton axes; incompatible "
                    "shapes must raise; common.broadcast_shapes/broadcastable/set_axes (int and tuple axes)/expand_shapes vs the Lean shape model; one Adc(phase=array) object reused over grids of different rank vs scalar runs times the defining phasor; three parameters on three "
                    "grid axes through `axes=` with first/second derivatives of E/P/T/Phi vs scalar runs; D with an array of "
                    "diffusion times, S with one shift per batch entry (same or lower rank than the grid, equal or different "
                    "patterns, integer and gridded) vs scalar runs of the F0/Z0 signals",
            "samples": [lib.jsonable(c07.describe(c07.gen_case(lib.rng(77))))],
            "distribution": {"vectorised_cases": n1, "axes_cases": n2, "incompatible_cases": n3, "shape_algebra_cases": n4,
                             "ndim_mismatch_sweep_cases": n5, "three_axis_grid_cases": n6, "batched_D_S_cases": n7}}


def run_C17(ctx, proof_ok):
    import c17

    r = lib.rng(17)
    n1, d1 = c17.search_crlb(r, budget(ctx.tier, 150, 3000))
    n2, d2 = c17.search_confint(r, budget(ctx.tier, 100, 2000))
    n3, d3 = c17.search_sequence(r, budget(ctx.tier, 12, 200))
    ctx.violations.extend(d1 + d2 + d3)
    return {"evaluations": n1 + n2 + n3, "distinct_nontrivial": n1 + n2 + n3,
            "rule": "random full-rank complex Jacobians/Hessians over batch shapes (), (3,), (2,2), (1,2), 1-4 parameters, weights, "
                    "sigma2 in {1, 0.04, 2.5}, log on/off: crlb / crlb_split vs trace(W inv(Re(J^H J)/sigma2)) computed per batch "
                    "element, gradient vs central finite differences of that formula along a smooth J(x); confint (with and "
                    "without Hessian) vs t-quantile (numerical integration) * sqrt(diag(SSE/dof * inverse)); Sequence.crlb/confint "
                    "vs the stats functions on the sequence's own Jacobian/Hessian",
            "samples": [{"batch": [3], "nparam": 2, "npoint": 5, "sigma2": 0.04, "log": False}],
            "distribution": {"crlb_cases": n1, "confint_cases": n2, "sequence_cases": n3}}


def run_C12(ctx, proof_ok):
    import simc

    E = epg()
    r = lib.rng(12)
    corpus = [decode_case(c) for c in load_corpus(ctx.prop)]
    cases = [c for c in corpus if "items" in c] + [simc.gen_case(r, maxlen=budget(ctx.tier, 25, 50)) for _ in range(budget(ctx.tier, 300, 5000))]
    n1, d1, dist1 = simc.compare(cases, E)
    n2, d2, dist2 = simc.search_batched(r, E, budget(ctx.tier, 250, 5000))
    n3, d3, dist3 = simc.search_modify(r, E, budget(ctx.tier, 200, 4000))
    n4, d4, dist4 = simc.search_snapshots(lib.rng(1212), E, budget(ctx.tier, 120, 2500))
    ctx.violations.extend(d1 + d2 + d3 + d4)
    return {"evaluations": n1 + n2 + n3 + n4, "distinct_nontrivial": sum(1 for c in cases if len(c["items"]) > 3) + n2 + n3 + n4,
            "rule": "timed random sequences over T/Phi/E/P/R/S/Wait/Offset/SPOILER with duration unset/number/True and 1..n Adc probes "
                    "(F0/Z0/F/Z, weights, reduce, phase), optional probe= override list (None / Adc with its own phase), optional "
                    "modify(T1,T2,g,att): simulate(adc_time=True) + get_adc_times vs the Lean Sim model run by the driver; batched "
                    "sequences (array durations, array weights and phases on leading axes, reduce int/True/False) vs manual stepping "
                    "of the real operators and the documented formula; modify() with scalar/array parameters, expand on/off, vs the "
                    "hand-built sequence with explicit E/P evolutions and scaled flip angles; probes returning several quantities "
                    "(tuple / list / callable / probe= forms) followed by in-place operators vs out-of-place manual stepping",
            "samples": [lib.jsonable(cases[-1])],
            "distribution": {"model_cases": n1, **{"model_" + k: int(v) for k, v in dist1.items()},
                             "batched_cases": n2, **{"batched_" + k: int(v) for k, v in dist2.items()},
                             "modify_cases": n3, **{"modify_" + k: int(v) for k, v in dist3.items()},
                             "snapshot_cases": n4, **{"snapshot_" + k: int(v) for k, v in dist4.items()}}}


def run_C18(ctx, proof_ok):
    import rfc

    E = epg()
    r = lib.rng(18)
    corpus = [decode_case(c) for c in load_corpus(ctx.prop)]
    for c in corpus:
        if "values" in c and isinstance(c["values"], dict):
            c["values"] = np.asarray(c["values"]["re"]) + 1j * np.asarray(c["values"]["im"])
    cases = [c for c in corpus if "values" in c] + [rfc.gen_case(r) for _ in range(budget(ctx.tier, 250, 5000))]
    n1, d1 = rfc.compare(cases, E)
    n2, d2, dist2 = rfc.search_product(r, E, budget(ctx.tier, 200, 4000))
    n3, d3 = rfc.search_encode(r, E, budget(ctx.tier, 80, 1500))
    n4, d4 = rfc.search_estimate(r, E, budget(ctx.tier, 200, 4000))
    ctx.violations.extend(d1 + d2 + d3 + d4)
    kinds = collections.Counter(c["kind"] for c in cases if "kind" in c)
    return {"evaluations": n1 + n2 + n3 + n4, "distinct_nontrivial": sum(1 for c in cases if len(c["values"]) > 2) + n2 + n3 + n4,
            "rule": "random waveforms (sinc, random amplitude+phase, constant phase with sign changes, chirp, hard; 1-25 samples, zeros "
                    "and |v|=1 included), scalar or per-sample durations, phi None/0/value, T1/T2/g subsets: RFPulse(values, duration, "
                    "rf=...)(state) and its duration vs Lean Model/RF run by the driver; batch search: rf/T2/g arrays vs the hand-built "
                    "ordered product with offset applied to the samples, through direct application and simulate(); encode_phase vs "
                    "hard pulses interleaved with P(dur_i, frequency map) (+ rewind); constant-phase waveforms: estimate_rf / "
                    "estimate_alpha round trips and pulse == T(alpha, phase of the summed samples)",
            "samples": [lib.jsonable({k: v for k, v in cases[-1].items() if k != "init"})],
            "distribution": {"model_cases": n1, "waveform_kinds": dict(kinds), "product_cases": n2,
                             **{"product_" + k: int(v) for k, v in dist2.items()}, "encode_cases": n3, "estimate_cases": n4}}


def run_C20(ctx, proof_ok):
    sys.path.insert(0, os.path.join(VERIF, "harness", "search"))
    import guardc

    E = epg()
    r = lib.rng(20)
    n, dis, hits = guardc.compare(r, E, budget(ctx.tier, 1600, 40000))
    import c09
    n2, d2 = c09.signal_function_reuse(lib.rng(2020), E, budget(ctx.tier, 40, 800))
    ctx.violations.extend(dis + d2)
    n += n2
    hits["signal_function_reuse"] = n2
    return {"evaluations": n, "distinct_nontrivial": n,
            "rule": "inputs generated by class (16 classes: negative duration entries at a random position/magnitude/shape for 7 "
                    "operator kinds, negative G/C times, zero / numerically zero shifts, >4 components, float shift without grid "
                    "(grid on the operator, the state matrix or simulate), malformed or asymmetric state matrices, scalar and matrix "
                    "operator coefficients, incompatible operator/state shapes via T/E/MultiOperator/simulate, kinetic matrices "
                    "(non-square, column sums, non-conserving, 1-d, negative rate), diffusion tensor/wavenumber shapes, differentiation "
                    "declarations (6 invalid forms), sequences without probe / with non-operator items, sequence variables, pulse "
                    "samples above 1, boundary-valid inputs), each with valid neighbours, half of the application-time cases on an "
                    "operator object already applied once to a valid state: epgpy raise/accept vs the class expectation and vs the "
                    "Lean guard model run by the driver on the same flattened input; the function returned by Sequence.signal() / "
                    "jacobian() called repeatedly with complete and incomplete variable sets (incomplete must raise whatever "
                    "was given before)",
            "samples": [], "distribution": {k: int(v) for k, v in sorted(hits.items())}}


def run_C04(ctx, proof_ok):
    import ndc

    E = epg()
    r = lib.rng(4)
    corpus = [c for c in load_corpus(ctx.prop) if "ops" in c]
    cases = corpus + [ndc.gen_case(r, maxlen=budget(ctx.tier, 14, 22)) for _ in range(budget(ctx.tier, 250, 4000))]
    n1, d1, dist1 = ndc.compare(cases, E)
    n2, d2, dist2 = ndc.search_backends(r, E, budget(ctx.tier, 100, 2500))
    n3, d3 = ndc.search_batched(r, E, budget(ctx.tier, 80, 2000))
    n4, d4 = ndc.search_axis_grids(r, E, budget(ctx.tier, 60, 1500))
    n5, d5 = ndc.compare_grid_helpers(r, E, budget(ctx.tier, 300, 5000))
    n4 += n5
    ctx.violations.extend(d1 + d2 + d3 + d4 + d5)
    modes = collections.Counter(c["mode"] for c in cases)
    return {"evaluations": n1 + n2 + n3 + n4, "distinct_nontrivial": sum(1 for c in cases if len(c["ops"]) > 3) + n2 + n3 + n4,
            "rule": "random sequences of T/E/Phi/P/R/SPOILER and shifts in 5 modes (n-D integer vectors, python-int and n-D mixed = "
                    "back-end change mid-sequence, gridded float shifts, time accumulation C, gradient operator G; 1-3 spatial "
                    "dimensions, pruning on/off): (1) wavenumber -> state tables of epgpy vs the Lean table model at K4; (2) the "
                    "property: inverse Fourier sum of epgpy's stored states at a random position and off-resonance vs the Bloch "
                    "isochromat computed by the Lean specification blochRunN; back-end search: the same sequence through shift-1d / "
                    "shift-nd / shift-merge / shift-prune and with a switch mid-sequence hold identical content; batched shifts vs "
                    "each signal alone; per-axis kgrid forms (scalar / one value per axis / fewer values = last repeated / more "
                    "values = cropped; coarse first-axis cell with shifts that are multiples of it) on the merging and pruning "
                    "back-ends vs the integer n-D back-end; `shift.get_grid` / `shift.append_batch_axes` vs the Lean definitions "
                    "`Shp.getGrid` / `Shp.appendBatchAxes` (theorems in Props/C04Grid.lean)",
            "samples": [lib.jsonable(cases[-1])],
            "distribution": {"model_cases": n1, "modes": dict(modes), **{k: int(v) for k, v in dist1.items()},
                             "backend_cases": n2, **{"backend_" + k: int(v) for k, v in dist2.items()}, "batched_cases": n3,
                             "axis_grid_cases": n4 - n5, "grid_helper_calls": n5}}


def run_C05(ctx, proof_ok):
    import difc

    E = epg()
    r = lib.rng(5)
    corpus = [c for c in load_corpus(ctx.prop) if "ops" in c]
    cases = corpus + [difc.gen_case(r, maxlen=budget(ctx.tier, 10, 16)) for _ in range(budget(ctx.tier, 200, 4000))]
    n1, d1 = difc.compare(cases, E)
    n2, d2, dist2 = difc.search_pathways(r, E, budget(ctx.tier, 120, 3000))
    n3, d3 = difc.search_identities(r, E, budget(ctx.tier, 60, 1500))
    ctx.violations.extend(d1 + d2 + d3)
    return {"evaluations": n1 + n2 + n3, "distinct_nontrivial": sum(1 for c in cases if len(c["ops"]) > 3) + n2 + n3,
            "rule": "random sequences of T/E/Phi, integer 1-3-D shifts and D(tau, D[, k]) with scalar or random SPD tensor "
                    "diffusivities, kvalue in [2e3, 3e4] rad/m: wavenumber -> state tables of epgpy vs the Lean coordinate-table "
                    "model with `diffuse`; the property: 1-4 RF pulses of arbitrary flip angle/phase with gradient and gradient-free "
                    "intervals, every stored state and F0 vs the explicit sum over all coherence pathways of amplitude*exp(-b:D) "
                    "with the closed-form integral of k(t)k(t)^T per interval (own formulas, ms / mm^2/s / rad/m); identities: scalar "
                    "vs isotropic tensor, float gridded vs integer wavenumbers, zero state untouched without gradient",
            "samples": [lib.jsonable(cases[-1])],
            "distribution": {"model_cases": n1, "pathway_cases": n2, **{k: int(v) for k, v in dist2.items()}, "identity_cases": n3}}


def run_C15(ctx, proof_ok):
    import imgc

    E = epg()
    r = lib.rng(15)
    cases = [imgc.gen_case(r) for _ in range(budget(ctx.tier, 150, 2500))]
    n1, d1, dist1 = imgc.compare(cases, E)
    n2, d2 = imgc.search_options(r, E, budget(ctx.tier, 40, 800))
    ctx.violations.extend(d1 + d2)
    return {"evaluations": n1 + n2, "distinct_nontrivial": n1 + n2,
            "rule": "states produced by random sequences with n-D integer / gridded float / gradient / time-accumulation shifts "
                    "(the C04 generator), then Imaging(position, voxel box|point, voxel_size, phase, modulation real/imaginary) "
                    "acquired twice with the same instance: value vs the Lean Imaging model run by the driver; vs the average over "
                    "the voxel (12-point Gauss-Legendre per axis) of the Bloch isochromats computed by the Lean specification, with "
                    "the imaginary modulation as off-resonance; options search: batches of flip angles, several positions, weights "
                    "and modulation through System() vs probe arguments, weights as plain multiplication, reduce=True as the sum, "
                    "simulate() twice on the same sequence object",
            "samples": [lib.jsonable({k: v for k, v in cases[-1].items() if not k.startswith("_")})],
            "distribution": {"model_cases": n1, **{k: int(v) for k, v in dist1.items()}, "option_cases": n2}}


def run_C06(ctx, proof_ok):
    import exc

    E = epg()
    r = lib.rng(6)
    corpus = [c for c in load_corpus(ctx.prop) if "ops" in c]
    cases = corpus + [exc.gen_case(r, maxlen=budget(ctx.tier, 10, 16)) for _ in range(budget(ctx.tier, 150, 3000))]
    n1, d1 = exc.compare(cases, E)
    n2, d2, dist2 = exc.search_physics(r, E, budget(ctx.tier, 120, 3000))
    n3, d3 = exc.search_limits(r, E, budget(ctx.tier, 50, 1000))
    n4, d4 = exc.search_grid(lib.rng(606), E, budget(ctx.tier, 40, 800))
    ctx.violations.extend(d1 + d2 + d3 + d4)
    n3 = n3 + n4
    return {"evaluations": n1 + n2 + n3, "distinct_nontrivial": sum(1 for c in cases if len(c["ops"]) > 3) + n2 + n3,
            "rule": "2-4 compartments with random densities and detailed-balance kinetic matrices (or a scalar rate), sequences of "
                    "T / S / per-compartment E / X(tau, K, T1, T2, g incl. None): every compartment's states vs the Lean exchange "
                    "model (scaled Taylor exponential, an algorithm independent of the code's eigendecomposition); physics search: X "
                    "vs exp(tau(-K+R))(M-Meq)+Meq by numpy scaling-and-squaring with the exchange axis at position 0 with a trailing "
                    "batch axis, at position 1 after a batch axis, infinite T1, with and without relaxation; semigroup tau1,tau2; "
                    "equilibrium fixed point; total magnetisation conserved without relaxation; limits: zero exchange = E per "
                    "compartment, scalar rate = its kinetic matrix, batched tau = each tau alone; grid: compartments on axis 0 with two "
                    "further operator axes (flip angles, mixing times), T1 = T2 with chemical shift, chemical shift alone",
            "samples": [lib.jsonable(cases[-1])],
            "distribution": {"model_cases": n1, "physics_cases": n2, **{k: int(v) for k, v in dist2.items()}, "limit_cases": n3 - n4,
                             "grid_cases": n4}}


def run_C09(ctx, proof_ok):
    import heapc

    E = epg()
    r = lib.rng(9)
    n1, d1, dist1 = heapc.compare(r, E, budget(ctx.tier, 150, 3000), budget(ctx.tier, 25, 60))
    seeds = [0, 1, 2, 3] if ctx.tier != "thorough" else list(range(0, 24)) + [12345, 4294967295]
    n2, d2 = heapc.hashseed_sweep(seeds)
    import c09
    import simc
    n3, d3 = c09.sequence_object_history(lib.rng(909), E, budget(ctx.tier, 25, 500))
    n4, d4 = c09.nested_program_history(lib.rng(910), E, budget(ctx.tier, 40, 800))
    n5, d5, _ = simc.search_snapshots(lib.rng(911), E, budget(ctx.tier, 60, 1200))
    import stage
    n6, _, d6 = stage.continued(lib.rng(912), E, budget(ctx.tier, 30, 600))  # init carrying partials: untouched, repeatable
    ctx.violations.extend(d1 + d2 + d3 + d4 + d5 + d6)
    n1 = n1 + n3 + n4 + n5 + n6
    return {"evaluations": n1 + n2, "distinct_nontrivial": n1,
            "rule": "random histories (length <= 25 quick / 60 thorough) of apply(op, handle, inplace) over 16 operator kinds (incl. "
                    "differential declarations with partial derivatives, 1-D / n-D / float shifts, PD, SPOILER, System, D, C, "
                    "MultiOperator, combined operators) drawn from a pool of reused operator objects, copy, simulate(init=handle, "
                    "options) twice, probe acquisitions of 'states' / F0 / lambda / Z / F: run on epgpy and on the Lean object model; "
                    "compared: result identity (in place / new object), no shared memory between handles of different cells nor "
                    "between the partials of one handle, bit-identical content of every handle whose cell the model leaves untouched, "
                    "operator objects unchanged and equal to fresh instances, simulate() repeatable and leaving init and its options "
                    "alone, snapshots frozen; plus the same script under several PYTHONHASHSEED values (digests of signals, "
                    "Jacobians, Hessians, CRLB, n-D states); histories of simulate / signal / jacobian / hessian / crlb with per-call "
                    "options on one Sequence object and its copy vs fresh Sequences (options dictionaries untouched); nested "
                    "program lists edited in place between uses vs the flat sequence; probes returning several quantities are "
                    "snapshots",
            "samples": [], "distribution": {"sequence_object_histories": n3, "nested_program_histories": n4, "snapshot_cases": n5, "histories": n1 - n3 - n4 - n5, **{k: int(v) for k, v in dist1.items()}, "hash_seeds": n2}}


def merge_results(a, b, rule):
    out = dict(a)
    out["evaluations"] = a["evaluations"] + b["evaluations"]
    out["distinct_nontrivial"] = a["distinct_nontrivial"] + b["distinct_nontrivial"]
    out["samples"] = a["samples"][:2] + b["samples"][:2]
    out["distribution"] = {**a.get("distribution", {}), **b.get("distribution", {})}
    out["rule"] = rule
    return out


def run_C08(ctx, proof_ok):
    a = run_core(ctx, 8, budget(ctx.tier, 300, 5000), maxlen=budget(ctx.tier, 30, 60), truncate=True, with_bloch=False)
    b = run_wide_wf(ctx, 108, budget(ctx.tier, 400, 12000), maxlen=budget(ctx.tier, 14, 30))
    import c08
    n3, d3 = c08.equilibrium_under_declarations(lib.rng(808), epg(), budget(ctx.tier, 80, 1600))
    ctx.violations.extend(d3)
    b["evaluations"] += n3
    b["distribution"]["declaration_cases"] = n3
    return merge_results(a, b, a["rule"] + " || wide search: well-formedness clauses of C08 evaluated on the live epgpy "
                         "StateMatrix after every operator of random programs over ALL operator kinds (1-D/n-D/float shifts, "
                         "G, C, D (also with k= and wavenumber units large enough for diffusion to act), truncation, pruning, batch shapes)"
                         " || declarations: sequences of T/E/P/Phi/S with first- and second-order declarations in every documented form "
                         "(incl. second-order coefficient maps), in place and out of place: well-formedness of the state matrix and of "
                         "every partial, equilibrium unchanged")


def run_diff(ctx, stream, select, ncorr, nsearch, second=True, plain_ops=False):
    """bookkeeping correspondence (model vs epgpy partial dictionaries after every operator, mirror and
    accumulation-form models) + jet-specification search; `select(problem_label)` keeps the problems
    that belong to the property being checked"""
    import diffc

    E = epg()
    r = lib.rng(stream)
    corpus = [decode_case(c) for c in load_corpus(ctx.prop)]
    free = [diffc.gen_case_free(r, maxlen=budget(ctx.tier, 8, 16), plain=False) for _ in range(ncorr)]
    n1, dis1 = diffc.compare_bookkeeping(free, E)
    cons = [c for c in corpus if "vars" in c] + [
        diffc.gen_case_consistent(r, maxlen=budget(ctx.tier, 8, 14), plain_ops=plain_ops, second=second)
        for _ in range(nsearch)]
    n2, dis2 = diffc.compare_jets(cons, E)
    raised = collections.Counter()
    kept = 0
    for d in dis1 + dis2:
        if d["kind"] == "epgpy-raised":
            raised[d["error"][:60]] += 1
            d = dict(d, problems=[("raised: " + d["error"][:80],)])
        probs = [p for p in d.get("problems", []) if select(str(p[0]))]
        if not probs:
            continue
        kept += 1
        ctx.violations.append(dict(d, problems=probs))
    forms = collections.Counter()
    nontriv = set()
    for c in free + cons:
        ks = set()
        for o in c["program"]:
            dcl = o.get("decl")
            if dcl:
                forms["order1:" + type(dcl.get("order1")).__name__ + ("/coeff" if isinstance(dcl.get("order1"), dict) and any(isinstance(v, dict) for v in dcl["order1"].values()) else "")] += 1
                if "order2" in dcl:
                    forms["order2:" + type(dcl.get("order2")).__name__] += 1
                ks.add(o["op"])
        if len(ks) >= 2:
            nontriv.add(case_hash(c))
    return {"evaluations": n1 + n2, "distinct_nontrivial": len(nontriv),
            "rule": "bookkeeping correspondence on programs with arbitrary declarations in every documented form "
                    "(partial dictionaries compared after every operator, both model forms) + search on consistent programs "
                    "(auto / explicit mode of C03's quantifier): epgpy partial state matrices and Jacobian/Hessian probes vs "
                    "the jet specification (plain model run at second-order jets); non-trivial = declarations on at least two "
                    "operator kinds; distinct by SHA-1",
            "samples": [lib.jsonable(c) for c in (free[:1] + cons[:1])],
            "distribution": {"declaration_forms": dict(forms), "epgpy_raised": dict(raised),
                             "bookkeeping_checks": n1, "jet_checks": n2, "disagreements_for_this_property": kept}}


def sel_first(label):
    return label.startswith(("d/d", "Jacobian", "order1", "states", "signal", "internal: order1", "raised: MutatedInput"))


def sel_second(label):
    return label.startswith(("d2/", "H[", "Hessian", "order2", "internal: order2", "internal: accumulation", "raised: TypeError"))


def run_C02(ctx, proof_ok):
    res = run_diff(ctx, 2, sel_first, budget(ctx.tier, 250, 4000), budget(ctx.tier, 250, 4000))
    import diffc

    probes = diffc.probe_F1(epg())
    ctx.violations.extend(probes)
    res["distribution"]["F1_probe_hits"] = len(probes)
    import c02
    n2, d2 = c02.vector_jacobian_fd(lib.rng(202), epg(), budget(ctx.tier, 40, 800))
    ctx.violations.extend(d2)
    res["evaluations"] += n2
    res["distribution"]["vector_fd_cases"] = n2
    import stage
    n3, d3, _ = stage.continued(lib.rng(203), epg(), budget(ctx.tier, 40, 800))
    ctx.violations.extend(d3)
    res["evaluations"] += n3
    res["distribution"]["continued_cases"] = n3
    res["rule"] += " || vectorised: E parameters as arrays on different grid axes (each with its own number of axes), declarations as " \
                   "list / True / alias / coefficient map: Jacobian columns of F0 and Z0 vs central finite differences of the plain " \
                   "vectorised simulation || continued simulations: a head applied by hand, simulate(tail, init=<state matrix carrying " \
                   "partials>, none / equilibrium= / max_nstate= / both): Jacobian vs central finite differences of the same two-stage " \
                   "computation without differentiation"
    return res


def run_C03(ctx, proof_ok):
    res = run_diff(ctx, 3, sel_second, budget(ctx.tier, 250, 4000), budget(ctx.tier, 300, 5000))
    # explicit pair lists "as produced by Sequence.hessian", non-linear parameter expressions
    import seqc

    r = lib.rng(303)
    cases = [seqc.gen_seq_case(r, maxlen=7) for _ in range(budget(ctx.tier, 120, 3000))]
    n, dis = seqc.compare_sequence(cases, epg())
    for d in dis:
        probs = [p for p in d.get("problems", []) if str(p[0]).startswith("hessian")]
        if probs:
            ctx.violations.append(dict(d, problems=probs))
    res["evaluations"] += n
    res["distribution"]["sequence_hessian_checks"] = n
    res["rule"] += " || Sequence.hessian on random sequences with expression-valued parameters vs the jet specification"
    return res


def run_C19(ctx, proof_ok):
    res = run_diff(ctx, 19, lambda l: l.startswith(("signal", "states")), budget(ctx.tier, 150, 2000), budget(ctx.tier, 100, 2000))
    import diffc

    E = epg()
    r = lib.rng(1900)
    n, dis = diffc.compare_subsets([diffc.gen_case_consistent(r, maxlen=8) for _ in range(budget(ctx.tier, 120, 3000))], E)
    ctx.violations.extend(dis)
    res["evaluations"] += n
    res["distribution"]["subset_runs"] = n
    res["rule"] += " || subset search: every consistent program is re-run with each single variable activated alone, with " \
                   "all declarations removed, and with variables renamed; signals compared bit-for-bit, columns to 1e-12"
    import c19
    n2, d2 = c19.combine_subset_independence(lib.rng(1901), E, budget(ctx.tier, 40, 800))
    ctx.violations.extend(d2)
    res["evaluations"] += n2
    res["distribution"]["combine_subset_cases"] = n2
    n3, d3 = c19.sequence_coefficient_sum(lib.rng(1902), E, budget(ctx.tier, 30, 600))
    ctx.violations.extend(d3)
    res["evaluations"] += n3
    res["distribution"]["sequence_coefficient_cases"] = n3
    res["rule"] += " || operands merged with `@` (left / right association, E/P/T): the column of one operand's parameter, alone vs " \
                   "together with random other declarations on every operand, vs sequential application || a Sequence variable feeding " \
                   "two parameters of one virtual operator: column = sum of c_p x (column of p alone on the concrete operators)"
    return res


def run_C11(ctx, proof_ok):
    import seqc

    E = epg()
    r = lib.rng(11)
    n1, dis1, trees = seqc.compare_expr(r, budget(ctx.tier, 300, 6000))
    cases = load_corpus("C11") + [seqc.gen_seq_case(r, maxlen=budget(ctx.tier, 7, 12)) for _ in range(budget(ctx.tier, 150, 3000))]
    n2, dis2 = seqc.compare_sequence(cases, E)
    n3, dis3, dist3 = seqc.search_sharing(r, E, budget(ctx.tier, 120, 2500))
    n4, dis4 = seqc.compare_bind(lib.rng(1111), E, budget(ctx.tier, 300, 6000))
    ctx.violations.extend(dis3 + dis4)
    n3 = n3 + n4
    raised = collections.Counter()
    for d in dis1 + dis2:
        if d["kind"] == "sequence-raised":
            raised[d["error"][:70]] += 1
            if "need at least one array" in d["error"]:
                continue  # no variable of the sequence requested: nothing to stack (harness request)
            d = dict(d, problems=[("raised: " + d["error"][:90],)])
        ctx.violations.append(d)
    kinds = collections.Counter()
    for c in cases:
        for o in c["program"]:
            kinds[o["op"] + ("/kw" if o.get("kw") else "")] += 1
    nontriv = {case_hash(c) for c in cases if len({o["op"] for o in c["program"]}) >= 2}
    nontriv |= {case_hash({"t": t}) for t in trees if len(str(t)) > 40}
    return {"evaluations": n1 + n2 + n3, "distinct_nontrivial": len(nontriv) + n3,
            "rule": "correspondence `expr`: random expression trees (depth<=4) over + - * / ** neg abs log exp, values inside the "
                    "domain; value, every first derivative, one mixed second derivative and one substitution compared with the Lean "
                    "model SE (table-driven derive with the regenerated table) || search: random Sequences of virtual operators whose "
                    "arguments are random expressions (positional or keyword passing): signal vs hand-built concrete operators, "
                    "jacobian/hessian vs the jet specification with parameter jets from the harness's own forward-mode AD || sharing "
                    "patterns: one virtual operator object reused, distinct operators with equal positional arguments but different "
                    "keyword-only options (Adc phase, R r0) or array constants of one shape, repeat() mappings: signal and jacobian "
                    "vs hand-built concrete operators",
            "samples": [lib.jsonable(trees[0] if trees else None), lib.jsonable(cases[0])],
            "distribution": {"virtual_ops": dict(kinds), "expr_checks": n1, "sequence_checks": n2, "sequence_raised": dict(raised),
                             "sharing_checks": n3, **{"sharing_" + k: int(v) for k, v in dist3.items()}}}


def replay_seq(ctx, data):
    import seqc

    inp = data["input"]
    if "expr" in inp:
        print("replay: expression case", inp)
        return 1
    _, dd = seqc.compare_sequence([inp], epg())
    for d in dd:
        print("still disagrees:", d["kind"], d.get("problems", d.get("error")))
    print("replay:", "VIOLATION reproduced" if dd else "no disagreement any more")
    return 1 if dd else 0


def replay_diff(ctx, data):
    import diffc

    case = decode_case(data["input"])
    E = epg()
    out = []
    if "vars" in case:
        _, dd = diffc.compare_jets([case], E)
        out += dd
    _, dd = diffc.compare_bookkeeping([case], E)
    out += dd
    for d in out:
        print("still disagrees:", d["kind"], d.get("problems", d.get("error")))
    print("replay:", "VIOLATION reproduced" if out else "no disagreement any more")
    return 1 if out else 0


# ---------------------------------------------------------------------------
# known findings: predicates keyed by finding id (the committed file lists which are active)

KNOWN_PREDICATES = {
    # F7: `@` with alias / coefficient declarations applies the coefficients twice
    "F7": lambda v: v.get("kind") == "F7-probe",
    # F1: a plain (non-Diff) operator applied to a state matrix that carries partial derivatives
    "F1": lambda v: v.get("kind") == "F1-probe",
}


def match_known(prop, violation, known):
    for kf in known.get("findings", []):
        props = kf["property"] if isinstance(kf["property"], list) else [kf["property"]]
        if prop not in props:
            continue
        pred = KNOWN_PREDICATES.get(kf["id"])
        if pred and pred(violation):
            return kf
    return None


def replay(ctx, spec, path):
    data = json.load(open(path if os.path.isabs(path) else os.path.join(VERIF, path)))
    if data.get("input") is None:
        print("replay: this file records a broken proof obligation / tie without a failing input:")
        for b in data.get("broken", []):
            print("  ", b)
        return 1
    fn = spec.get("replay")
    own = {"replay_core": {"model-vs-epgpy states", "model-vs-epgpy equilibrium", "bloch-ensemble-vs-epgpy", "epgpy-raised"},
           "replay_diff": {"model-vs-epgpy partials", "jets-vs-epgpy", "subset-vs-full"},
           "replay_seq": {"sequence-vs-jets", "sequence-raised", "expr-vs-model"}}
    if fn is None or (fn.__name__ in own and data.get("kind") not in own[fn.__name__]):
        fn = replay_generic      # kinds found by the other searches of this property: re-run them under the recorded seed
    return fn(ctx, data)


def replay_core(ctx, data):
    import core

    case = decode_case(data["input"])
    _, dd = core.compare([case], epg(), with_bloch=True)
    for d in dd:
        print("still disagrees:", d["kind"], d.get("op"), d.get("max_abs_diff"))
    print("replay:", "VIOLATION reproduced" if dd else "no disagreement any more")
    return 1 if dd else 0


TIE_OP = ["TieTOp", "TiePhiOp", "TieEOp", "TiePOp", "TieROp"]
TIE_D1 = ["TieTD1", "TiePhiD1", "TieED1", "TiePD1", "TieRD1"]
TIE_D2 = ["TieTD2", "TiePhiD2", "TieED2", "TiePD2", "TieRD2"]

PROPS = {
    "C01": {
        "lean_modules": ["EpgVerif.Props.C01"],
        "tie": TIE_OP,
        "audit": "EpgVerif/Audit/C01.lean",
        "run": run_C01,
        "replay": replay_core,
        "partial": ["truncated programs (max_nstate / nmax) are excluded from the theorem: they are the subject of C13"],
    },
}
PROPS["C08"] = {
    "lean_modules": ["EpgVerif.Props.C08"],
    "tie": TIE_OP,
    "audit": "EpgVerif/Audit/C08.lean",
    "run": run_C08,
    "replay": replay_core,
    "partial": ["the theorem covers the 1-D state model (T, Phi, E, P, R, 1-D shift with truncation, Spoiler, Reset, PD, Wait); "
                "coordinate tables with integer shifts along any number of axes, with or without a state cap, stay well-formed "
                "(`C04.wfn_init / wfn_point / wfn_shift`, `C13Cap.wfn_capShift`, carried through whole programs by `get_capRun`); "
                "gridded (real-valued) shifts: merging the states of one grid cell keeps the conjugate mirror whenever the cell map is odd on a "
                "symmetric set of stored wavenumbers (`C08Merge.merge_wellformed`, `merge_centre_real`), and the package's cell index "
                "(round half away from zero, text tied in ShiftSites) is odd (`cellIndex_odd`); that the code's index arithmetic is this "
                "merge, and D and X, are covered by the search on the real code only"],
}

DIFF_PARTIAL = ["proved: (i) every coefficient's symbolic derivative is its derivative, also as a total derivative along a curve in "
                "parameter space, and stays defined (`defined_d`); (ii) regenerated tables = symbolic derivatives; (iii) the dictionary "
                "bookkeeping accumulates the chain-rule terms exactly once (first order, mixed pairs and diagonal pairs, any operator "
                "class and parameter lists: `pairVar_value`, `diagVar_value`); (iv) first order: what the bookkeeping stores is the "
                "derivative of the new state (T, E, Phi, P and R families: `famT`, `famE`, `famPhi`, `famP`, `famR`, `famR0`), lifted by induction to whole programs (`C02Run.jacobian_exact`); "
                "(v) second order: for RF pulses and relaxation intervals whose parameters depend (non-linearly) on two variables, the "
                "value stored under (a, b) is the derivative with respect to b of the new first partial under a "
                "(`T_mixed_partial_exact_nl`, `E_mixed_partial_exact_nl`), lifted by induction to whole programs of pulses, "
                "relaxation intervals and shifts (`C03Prog.hessian_exact`); the diagonal pair (a, a), one variable driving all parameters "
                "non-linearly, for RF pulses (`T_diag_partial_exact_nl`) and relaxation intervals (`E_diag_partial_exact_nl`), "
                "lifted to whole programs of pulses, relaxation intervals and shifts (`C03Diag.hessian_diag_exact` with `step1T`, "
                "`step1E`, `step1Shift`; `C03PRDiag`: `P_diag_partial_exact_nl`, `R_diag_partial_exact_nl`, `Phi_diag_partial_exact_nl` with "
                "the program steps `step1P`, `step1R`); precession intervals: `P_mixed_partial_exact_nl` and the program step `stepP` (so "
                "`hessian_exact` covers programs of pulses, relaxation, precession, phase offsets and shifts: `Phi_mixed_partial_exact_nl`, "
                "`stepPhi`; R with real parameters: `R_mixed_zero`, `R_mixed_partial_exact_nl`, `stepR`). Not stated as theorems: R with a "
                "complex rT (known finding F20: the bookkeeping is real-linear); exercised by the "
                "jet-specification search"]
for _p, _run, _tie in (("C02", run_C02, TIE_OP + TIE_D1), ("C03", run_C03, TIE_OP + TIE_D1 + TIE_D2), ("C19", run_C19, TIE_OP)):
    PROPS[_p] = {
        "lean_modules": [f"EpgVerif.Props.{_p}"],
        "tie": _tie,
        "audit": f"EpgVerif/Audit/{_p}.lean",
        "run": _run,
        "replay": replay_diff,
        "partial": DIFF_PARTIAL,
    }

PROPS["C11"] = {
    "lean_modules": ["EpgVerif.Props.C11"],
    "tie": [],
    "audit": "EpgVerif/Audit/C11.lean",
    "run": run_C11,
    "replay": replay_seq,
    "theorems_hint": ["expression_derive_exact", "subst_eval", "virtual_table_wellbound", "mathTable_ok"],
    "partial": ["`sequence_eq_concrete` (Sequence = hand-built concrete list) and the chain rule through VirtualOperator.build are "
                "exercised by the search, not proved; arrays as constants are evaluated element-wise by numpy (modelled as scalars)"],
}

PROPS["C14"] = {
    "lean_modules": ["EpgVerif.Props.C14"],
    "tie": TIE_OP,
    "audit": "EpgVerif/Audit/C14.lean",
    "run": run_C14,
    "replay": replay_core,
    "partial": ["proved: T/Phi/P/S isometries, E and Spoiler contractions, shifts along any number of axes are isometries, "
                "symmetric norm = code norm for well-formed states, norm² = mean squared isochromat length (Parseval, composed with "
                "C01's ensemble theorem), |F0| <= PD for every sequence of pulses / evolutions with T2 <= 2 T1 / shifts / spoilers "
                "(1-D matrices, and n-D coordinate tables with diagonal contractions), scalar (D >= 0) and tensor (D positive "
                "semi-definite) diffusion are such contractions; dropping rows by an even mask (the state cap, state pruning) keeps the "
                "invariant, so capped and pruned simulations never exceed PD either (`C14Cap.capped_signal_le_PD`, "
                "`pruned_signal_le_PD`). Not proved: the merging back-end (searched; merging can exceed PD, see F91 in DESIGN 0.4)"],
}

PROPS["C13"] = {
    "lean_modules": ["EpgVerif.Props.C13"],
    "tie": TIE_OP,
    "audit": "EpgVerif/Audit/C13.lean",
    "run": run_C13,
    "replay": replay_core,
    "partial": ["proved: no state beyond the cap and the exactness horizon 2n+1 for the 1-D model from the default initial state; "
                "merging preserves the value at x = 0 and moves each wavenumber by less than a cell (abstract fibre sums); pruning: exact "
                "decomposition of the error into propagated removals, |dF0| <= 2 eps x (states removed so far) <= 2 eps x (cumulative "
                "states) for any sequence of pulses / evolutions / shifts on any number of axes, and masks that keep everything are "
                "exact (`C13Prune`); the integer n-D cap (`C13Cap`): no state beyond the cap, capped tables stay well-formed, state k exact while "
                "sz k + accumulated shift size <= 2n+1 for any even subadditive size (K4: largest spatial index; time accumulation is "
                "free), stated on the coordinate tables the driver runs against epgpy. Searched only: the cap of the real-valued "
                "back-ends (known finding F134: not applied), the partials pruner, that the code's masks are the modelled ones; "
                "tightness of the horizon (a difference at A = 2n+2) is exhibited numerically, not proved"],
}

PROPS["C10"] = {
    "lean_modules": ["EpgVerif.Props.C10"],
    "tie": [],
    "audit": "EpgVerif/Audit/C10.lean",
    "run": run_C10,
    "replay": replay_generic,
    "theorems_hint": ["flatten_spec", "multi_attrs_sums", "combine_apply", "combine_assoc", "combine_partials_first_order"],
    "partial": ["theorems are about abstract affine operators over any ring (scalar arrays and 3x3 matrices are instances) and "
                "about the generic bookkeeping run on operator arrays; the numpy plumbing (extend_operators, einsum, broadcast) is "
                "tied by the combine correspondence on the real code; second-order tables of the composite are exercised, not proved"],
}

PROPS["C16"] = {
    "lean_modules": ["EpgVerif.Props.C16"],
    "tie": [],
    "audit": "EpgVerif/Audit/C16.lean",
    "run": run_C16,
    "replay": replay_generic,
    "theorems_hint": ["inv_reachable"],
    "partial": ["the Lean state machine is shape-level (arrays by shape, `update`/`link`/`apply` not modelled): values, memory "
                "independence of copies and the per-array guarantees are checked on the live objects by the correspondence harness"],
}

PROPS["C07"] = {
    "lean_modules": ["EpgVerif.Props.C07"],
    "tie": [],
    "audit": "EpgVerif/Audit/C07.lean",
    "run": run_C07,
    "replay": replay_generic,
    "theorems_hint": ["broadcast2_spec", "broadcast2_none_iff", "insert_axes_realises_append"],
    "partial": ["proved: the shape algebra (result spec, failure criterion, commutativity, idempotence), the index lemma behind "
                "`scalar_prod`/`matrix_prod` (inserted axes + right-aligned broadcasting = left-aligned pairing) and `axes=` placement; "
                "`vectorised_eq_scalar` for whole programs is the metamorphic search on the real code (every grid index), not a theorem"],
}

PROPS["C17"] = {
    "lean_modules": ["EpgVerif.Props.C17"],
    "tie": [],
    "audit": "EpgVerif/Audit/C17.lean",
    "run": run_C17,
    "replay": replay_generic,
    "theorems_hint": ["crlb_signatures", "confint_signatures", "inverse_derivative", "crlb_gradient_exact"],
    "partial": ["proved: the contraction patterns of the current source are the intended ones (decide on the regenerated strings), "
                "Fisher = Re(J^H J) and symmetric, derivative of the inverse and hence of tr(W I^-1) given a differentiable inverse; "
                "numpy's einsum/inv/cond, the t-table and the batch plumbing are tied by the numeric search only"],
}

PROPS["C12"] = {
    "lean_modules": ["EpgVerif.Props.C12"],
    "tie": [],
    "audit": "EpgVerif/Audit/C12.lean",
    "run": run_C12,
    "replay": replay_generic,
    "theorems_hint": ["simulate_length", "first_entry_value", "simulate_after_first", "first_time_is_prefix_sum", "modify_times", "modify_run",
                      "modifyItems_is_modify"],
    "partial": ["proved for the list-level simulate/get_adc_times/modify model over arbitrary operators, with the concrete default_modifier "
                "shown to be that abstract modify; Adc acquire/post are modelled for one simulation (batch (1,)) and tied by execution; "
                "array weights/phases/durations, reduce axes and modify(expand=) placement are decided by the defining-formula search only"],
}

PROPS["C18"] = {
    "lean_modules": ["EpgVerif.Props.C18"],
    "tie": [],
    "audit": "EpgVerif/Audit/C18.lean",
    "run": run_C18,
    "replay": replay_generic,
    "theorems_hint": ["pulse_is_ordered_product", "rfpulse_offset", "constant_phase_pulse", "estimate_roundtrip", "modify_duration"],
    "partial": ["proved for one simulation (scalar rf/T1/T2/g) with samples in polar form as numpy's abs/angle deliver them; "
                "estimate_alpha's mod-wrapping and estimate_rf's scipy branch are outside the model (the constant-phase closed form is "
                "proved); batch parameters, encode_phase's frequency map and the estimate functions themselves are decided by the "
                "searches on the real code"],
}

PROPS["C20"] = {
    "lean_modules": ["EpgVerif.Props.C20"],
    "tie": [],
    "audit": "EpgVerif/Audit/C20.lean",
    "run": run_C20,
    "replay": replay_generic,
    "theorems_hint": ["anyNegative_iff", "zeroShift_iff", "badStatesShape_iff", "notBroadcastable_iff", "badKinetic_iff", "badDecl_iff",
                      "badSequence_iff", "pulseTooLarge_iff"],
    "partial": ["each guard is a decision function characterised by the class it rejects (for every array content, position and "
                "shape); arrays enter as flat entry lists + shapes and numeric tests as predicates, so numpy's reductions "
                "(any/all/allclose/max) and the flattening done by the harness are modelled, not verified; that the real "
                "constructors call these guards on every path is decided by the class-driven search only"],
}

PROPS["C04"] = {
    "lean_modules": ["EpgVerif.Props.C04"],
    "tie": [],
    "audit": "EpgVerif/Audit/C04.lean",
    "run": run_C04,
    "replay": replay_generic,
    "theorems_hint": ["nd_is_bloch", "position_is_bloch", "get_shift", "synth_shiftF", "backend_shift_agree"],
    "partial": ["proved for wavenumber indices in any commutative group (instance: (kx,ky,kz,t) integer lattice with positions and "
                "off-resonance as characters), no pruning and no cap; lattice indices stand for gridded float wavenumbers that are "
                "not merged (the property's side condition); merging/pruning, unique_1d/lexsort, add_at and the batch plumbing of "
                "shiftmerge/shiftprune are tied by execution and by the back-end agreement search only"],
}

PROPS["C05"] = {
    "lean_modules": ["EpgVerif.Tie.Diffusion", "EpgVerif.Props.C05"],
    "tie": [],
    "audit": "EpgVerif/Audit/C05.lean",
    "run": run_C05,
    "replay": replay_generic,
    "theorems_hint": ["bmatRamp_is_integral", "bmatConst_is_integral", "scalar_is_isotropic", "zero_wavenumber_unattenuated", "att_mul",
                      "get_diffuse", "Tie.Diffusion.bmat3_ramp_tie"],
    "partial": ["proved: the regenerated compute_bmatrix / diffusion_operator expressions are the model's, the model's b-matrices are "
                "the time integrals of k k^T (constant and linear ramp), scalar = isotropic, k = 0 unattenuated, b-matrices add along "
                "a pathway, D acts state-wise on the coordinate table, and the pathway expansion itself (`pathway_expansion`: the "
                "operator of a sequence of RF pulses / shifts / diagonal steps is the sum over all choices of one elementary "
                "transition per step of the composed pieces; attenuations compose by `diag_comp`). Not proved: the closed form "
                "of one pathway's amplitude on a delta state, and relaxation's recovery term inside the expansion; both are "
                "covered by the explicit pathway enumeration on the real code"],
}

PROPS["C15"] = {
    "lean_modules": ["EpgVerif.Props.C15"],
    "tie": [],
    "audit": "EpgVerif/Audit/C15.lean",
    "run": run_C15,
    "replay": replay_generic,
    "theorems_hint": ["box_factor", "box_voxel_is_voxel_average", "point_voxel_is_isochromat", "modulation_term"],
    "partial": ["proved: sinc form factor = voxel average of e^{iku}; a box voxel is the average of point voxels (one axis; the "
                "code's product over axes is the iterated average); a point voxel with imaginary modulation is the off-resonant "
                "Bloch isochromat (composition with C04, three axes + time); real modulation is the per-state factor exp(rate|t|). "
                "The tol masks, einsum/broadcast plumbing over batch and position axes, weights/reduce and System() are decided "
                "by execution and the options search only"],
}

PROPS["C06"] = {
    "lean_modules": ["EpgVerif.Props.C06"],
    "tie": [],
    "audit": "EpgVerif/Audit/C06.lean",
    "run": run_C06,
    "replay": replay_generic,
    "theorems_hint": ["evolve_ode", "evolve_semigroup", "total_conserved", "zero_exchange_independent", "equilibrium_in_kernel", "applyX_is_evolve"],
    "partial": ["proved for Mathlib's matrix exponential: the model's per-state action with the exponentials of the generators is the "
                "solution of dM/dt = A(M - Meq) (ODE, semigroup, fixed point, diagonal case, conservation when the columns of K sum "
                "to zero). The code's expm (eigendecomposition + solve) and the driver's scaled Taylor series are two numerical "
                "stand-ins for that exponential: their agreement is checked by execution, not proved; axis moving / broadcasting of "
                "the compartment axis is decided by the physics search only"],
}

PROPS["C09"] = {
    "lean_modules": ["EpgVerif.Props.C09"],
    "tie": [],
    "audit": "EpgVerif/Audit/C09.lean",
    "run": run_C09,
    "replay": replay_generic,
    "theorems_hint": ["version_after_history", "untouched_without_inplace", "fresh_result", "readonly_inplace_copies"],
    "partial": ["the theorem is about the object-level model (handles on cells with update counters): in every history a cell is "
                "updated exactly by the in-place applications that target it, and out-of-place results, copies and snapshots are "
                "fresh cells. That epgpy's objects follow this model (prepare/copy discipline, deep copies of every array, snapshot "
                "copies in acquire) is established by the history correspondence only; CPython object semantics, numpy views and "
                "the interpreter hash seed are outside any Lean model and are covered by execution (hash-seed sweep)"],
}

# source-text and symbolic-execution tie modules (hand-written statements about regenerated Gen files, rebuilt every run)
EXTRA_MODULES = {
    "C01": ["EpgVerif.Tie.ApplySites"],
    "C02": ["EpgVerif.Tie.DiffSites", "EpgVerif.Props.C02Run", "EpgVerif.Props.C02Fam", "EpgVerif.Props.C02FamR"],
    "C03": ["EpgVerif.Tie.DiffSites", "EpgVerif.Props.C03Run", "EpgVerif.Props.C03Gen", "EpgVerif.Props.C03E", "EpgVerif.Props.C03Prog", "EpgVerif.Props.C03Diag", "EpgVerif.Props.C03EDiag", "EpgVerif.Props.C03P", "EpgVerif.Props.C03Phi", "EpgVerif.Props.C03R", "EpgVerif.Props.C03All", "EpgVerif.Props.C03PRDiag"],
    "C04": ["EpgVerif.Tie.ShiftSites", "EpgVerif.Props.C04Multi", "EpgVerif.Props.C04Grid"],
    "C05": ["EpgVerif.Tie.PhysSites", "EpgVerif.Props.C05Path", "EpgVerif.Props.C05Att"],
    "C06": ["EpgVerif.Tie.PhysSites", "EpgVerif.Tie.Exchange"],
    "C07": ["EpgVerif.Tie.ApplySites", "EpgVerif.Props.C07Axes"],
    "C08": ["EpgVerif.Tie.ApplySites", "EpgVerif.Tie.ShiftSites", "EpgVerif.Props.C04", "EpgVerif.Props.C13Cap", "EpgVerif.Props.C08Merge"],
    "C09": ["EpgVerif.Tie.PuritySites"],
    "C10": ["EpgVerif.Tie.ApplySites", "EpgVerif.Props.C10Second", "EpgVerif.Props.C10Tuple"],
    "C11": ["EpgVerif.Tie.SeqSites", "EpgVerif.Props.C11Run", "EpgVerif.Props.C11Bind"],
    "C12": ["EpgVerif.Tie.SimSites", "EpgVerif.Tie.Modify"],
    "C13": ["EpgVerif.Tie.ShiftSites", "EpgVerif.Props.C13Prune", "EpgVerif.Props.C13Cap"],
    "C14": ["EpgVerif.Tie.ShiftSites", "EpgVerif.Props.C14Bound", "EpgVerif.Props.C14Parseval", "EpgVerif.Props.C14Tensor", "EpgVerif.Props.C14Cap"],
    "C15": ["EpgVerif.Tie.PhysSites", "EpgVerif.Props.C15Box3"],
    "C16": ["EpgVerif.Tie.CollSites"],
    "C18": ["EpgVerif.Tie.PhysSites", "EpgVerif.Tie.RFPulse"],
    "C19": ["EpgVerif.Tie.DiffSites"],
    "C20": ["EpgVerif.Tie.GuardSites"],
}
for _p, _mods in EXTRA_MODULES.items():
    PROPS[_p]["lean_modules"] = list(PROPS[_p]["lean_modules"]) + [m for m in _mods if m not in PROPS[_p]["lean_modules"]]

NOT_CLAIMED = {}
