#!/venv/bin/python
"""keepseed.py <seeddir> <k> <name> <caught_by comma list | none> : store a confirmed seeded change under /verif/seeded/<name>/"""
import json, os, shutil, sys
src, k, name, caught = sys.argv[1:5]
dst = os.path.join(os.path.dirname(os.path.dirname(os.path.abspath(__file__))), "seeded", name)
os.makedirs(dst, exist_ok=True)
shutil.copy(os.path.join(src, f"patch{k}.diff"), os.path.join(dst, "patch.diff"))
shutil.copy(os.path.join(src, f"demo{k}.py"), os.path.join(dst, "demo.py"))
meta = json.load(open(os.path.join(src, f"meta{k}.json")))
meta["confirmed_by_me"] = "harness/seedtest.py: patch applies to /repo; existing suite 68 passed with patch; demo exits 0 without and 1 with the patch"
meta["caught_by"] = [] if caught == "none" else caught.split(",")
json.dump(meta, open(os.path.join(dst, "meta.json"), "w"), indent=1)
print("kept", dst)
