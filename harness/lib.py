"""Shared utilities of the verification harness (runs under /venv/bin/python)."""
import hashlib
import json
import os
import struct
import subprocess
import sys
import time

VERIF = os.path.dirname(os.path.dirname(os.path.abspath(__file__)))
REPO = os.environ.get("EPGPY_REPO", "/repo")
LEAN = os.path.join(VERIF, "lean")
DRIVER = os.path.join(LEAN, ".lake", "build", "bin", "driver")

if REPO not in sys.path:
    sys.path.insert(0, REPO)

import numpy as np  # noqa: E402

TOL = 1e-9


def seed():
    return int(os.environ.get("VERIF_SEED", "0"))


def rng(stream):
    """one PRNG stream per property / sub-model, all derived from VERIF_SEED"""
    return np.random.Generator(np.random.PCG64([seed(), stream]))


def f2b(x):
    return str(struct.unpack("<Q", struct.pack("<d", float(x)))[0])


def b2f(s):
    return struct.unpack("<d", struct.pack("<Q", int(s)))[0]


def c2b(z):
    z = complex(z)
    return f"{f2b(z.real)} {f2b(z.imag)}"


def run_driver(lines, timeout=600):
    """feed request lines to the compiled Lean driver; return its output lines"""
    if not os.path.exists(DRIVER):
        raise RuntimeError(f"driver not built: {DRIVER}")
    p = subprocess.run(
        [DRIVER], input="\n".join(lines) + "\n", capture_output=True, text=True, timeout=timeout
    )
    if p.returncode != 0:
        raise RuntimeError(f"driver failed: {p.stderr[:2000]}")
    return p.stdout.splitlines()


def parse_states(line):
    """'st n v...' -> (n, complex array (2n+1, 3))"""
    toks = line.split()
    tag, n = toks[0], int(toks[1])
    vals = [b2f(t) for t in toks[2:]]
    arr = np.array(vals, dtype=float).reshape(2 * n + 1, 3, 2)
    return tag, n, arr[..., 0] + 1j * arr[..., 1]


def close(a, b, scale=None, tol=TOL):
    a, b = np.asarray(a), np.asarray(b)
    if a.shape != b.shape:
        return False, float("inf")
    if a.size == 0:
        return True, 0.0
    err = float(np.max(np.abs(a - b)))
    ref = max(1.0, float(np.max(np.abs(b))) if scale is None else scale)
    ok = np.all(np.isfinite(a)) and np.all(np.isfinite(b)) and err <= tol * ref
    return bool(ok), err


def jsonable(x):
    if isinstance(x, dict):
        return {str(k): jsonable(v) for k, v in x.items()}
    if isinstance(x, (list, tuple)):
        return [jsonable(v) for v in x]
    if isinstance(x, np.ndarray):
        if np.iscomplexobj(x):
            return {"re": x.real.tolist(), "im": x.imag.tolist()}
        return x.tolist()
    if isinstance(x, (np.integer,)):
        return int(x)
    if isinstance(x, (np.floating,)):
        return float(x)
    if isinstance(x, complex):
        return {"re": x.real, "im": x.imag}
    if isinstance(x, (np.bool_,)):
        return bool(x)
    return x


def write_replay(prop, payload):
    os.makedirs(os.path.join(VERIF, "replays"), exist_ok=True)
    text = json.dumps(jsonable(payload), indent=1, sort_keys=True)
    h = hashlib.sha1(text.encode()).hexdigest()[:12]
    path = os.path.join(VERIF, "replays", f"{prop}-{h}.json")
    with open(path, "w") as f:
        f.write(text)
    return os.path.relpath(path, VERIF)


class Timer:
    def __init__(self):
        self.t0 = time.time()

    def s(self):
        return round(time.time() - self.t0, 2)
