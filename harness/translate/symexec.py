"""Symbolic execution of epgpy's closed-form coefficient functions.

The *real* function objects of /repo (their code objects, rebuilt over patched
module globals where ``np``/``xp`` is a proxy producing object-dtype arrays) are
called on symbolic scalars.  numpy's own object-dtype machinery then performs the
slicing, in-place updates, ``.conj()`` and ``@`` of the source, and every entry of
the result is an expression DAG (`Sym`).  Nothing here parses source text.
"""
import fractions
import types
import numpy as np


class Sym:
    """node of an expression DAG"""

    __slots__ = ("op", "args", "_h")

    def __init__(self, op, *args):
        self.op = op
        self.args = args
        self._h = None

    # -- construction helpers
    @staticmethod
    def lift(x):
        if isinstance(x, Sym):
            return x
        if isinstance(x, (bool, np.bool_)):
            return Sym("const", complex(int(x)))
        if isinstance(x, (int, float, complex, np.number)):
            return Sym("const", complex(x))
        raise TypeError(f"cannot lift {type(x)}: {x!r}")

    def _b(self, op, o, rev=False):
        if isinstance(o, np.ndarray):
            f = np.frompyfunc(lambda e: self._b(op, e, rev), 1, 1)
            return f(o)
        o = Sym.lift(o)
        return Sym(op, o, self) if rev else Sym(op, self, o)

    def __add__(s, o): return s._b("add", o)
    def __radd__(s, o): return s._b("add", o, True)
    def __sub__(s, o): return s._b("sub", o)
    def __rsub__(s, o): return s._b("sub", o, True)
    def __mul__(s, o): return s._b("mul", o)
    def __rmul__(s, o): return s._b("mul", o, True)
    def __truediv__(s, o): return s._b("div", o)
    def __rtruediv__(s, o): return s._b("div", o, True)
    def __neg__(s): return Sym("neg", s)
    def __pos__(s): return s

    def __pow__(s, o):
        if isinstance(o, (int, np.integer)) and o >= 0:
            return Sym("pow", s, int(o))
        if isinstance(o, float) and o.is_integer() and o >= 0:
            return Sym("pow", s, int(o))
        raise TypeError(f"unsupported exponent {o!r}")

    # numpy object-dtype ufunc dispatch calls these methods
    def cos(s): return Sym("cos", s)
    def sin(s): return Sym("sin", s)
    def exp(s): return Sym("exp", s)
    def conjugate(s): return Sym("conj", s)
    def conj(s): return Sym("conj", s)

    @property
    def real(s):
        raise TypeError("real part of a symbolic value requested")

    def __bool__(s):
        raise TypeError("truth value of a symbolic expression requested")

    def __lt__(s, o):
        # the only comparison the constructors make on a parameter is the rejection guard `x < 0`
        # (negative times); the symbolic run is the accepted branch, and the assumption is recorded.
        # The guard itself is the business of C20 (guard table), not of the formulas.
        if isinstance(o, (int, float)) and not isinstance(o, bool) and o == 0:
            ASSUMED.add(f"not ({s!r} < 0)")
            return False
        raise TypeError(f"comparison of a symbolic expression with {o!r}")

    def __repr__(s):
        if s.op == "const":
            return repr(s.args[0])
        if s.op == "var":
            return s.args[0]
        return f"{s.op}({', '.join(map(repr, s.args))})"


ASSUMED = set()  # sign assumptions under which the symbolic run took the accepted branch of a guard


def var(name):
    return Sym("var", name)


PI = Sym("pi")


# ---------------------------------------------------------------------------
# numeric evaluation of a DAG (used to validate the symbolic execution)


def evaluate(e, env):
    e = Sym.lift(e)
    op, a = e.op, e.args
    if op == "const":
        return a[0]
    if op == "var":
        return complex(env[a[0]])
    if op == "pi":
        return complex(np.pi)
    if op == "add":
        return evaluate(a[0], env) + evaluate(a[1], env)
    if op == "sub":
        return evaluate(a[0], env) - evaluate(a[1], env)
    if op == "mul":
        return evaluate(a[0], env) * evaluate(a[1], env)
    if op == "div":
        return evaluate(a[0], env) / evaluate(a[1], env)
    if op == "neg":
        return -evaluate(a[0], env)
    if op == "exp":
        return np.exp(evaluate(a[0], env))
    if op == "cos":
        return np.cos(evaluate(a[0], env))
    if op == "sin":
        return np.sin(evaluate(a[0], env))
    if op == "conj":
        return np.conj(evaluate(a[0], env))
    if op == "pow":
        return evaluate(a[0], env) ** a[1]
    raise ValueError(op)


# ---------------------------------------------------------------------------
# simplification (constant folding only; no algebra)


def is_const(e, v=None):
    return e.op == "const" and (v is None or e.args[0] == v)


def simp(e):
    e = Sym.lift(e)
    op = e.op
    if op in ("const", "var", "pi"):
        return e
    if op == "pow":
        a = simp(e.args[0])
        if is_const(a):
            return Sym("const", a.args[0] ** e.args[1])
        if e.args[1] == 1:
            return a
        return Sym("pow", a, e.args[1])
    args = [simp(a) for a in e.args]
    if all(is_const(a) for a in args) and op in ("add", "sub", "mul", "div", "neg", "conj"):
        v = [a.args[0] for a in args]
        if op == "add": return Sym("const", v[0] + v[1])
        if op == "sub": return Sym("const", v[0] - v[1])
        if op == "mul": return Sym("const", v[0] * v[1])
        if op == "div" and v[1] != 0: return Sym("const", v[0] / v[1])
        if op == "neg": return Sym("const", -v[0])
        if op == "conj": return Sym("const", v[0].conjugate())
    if op == "exp" and is_const(args[0], 0):
        return Sym("const", 1 + 0j)
    if op == "add":
        if is_const(args[0], 0): return args[1]
        if is_const(args[1], 0): return args[0]
    if op == "sub":
        if is_const(args[1], 0): return args[0]
        if is_const(args[0], 0): return simp(Sym("neg", args[1]))
    if op == "mul":
        if is_const(args[0], 0) or is_const(args[1], 0): return Sym("const", 0j)
        if is_const(args[0], 1): return args[1]
        if is_const(args[1], 1): return args[0]
    if op == "div":
        if is_const(args[0], 0): return Sym("const", 0j)
        if is_const(args[1], 1): return args[0]
    if op == "neg":
        if is_const(args[0], 0): return Sym("const", 0j)
        if args[0].op == "neg": return args[0].args[0]
    if op == "conj" and is_const(args[0]):
        return Sym("const", args[0].args[0].conjugate())
    return Sym(op, *args)


# ---------------------------------------------------------------------------
# emission as Lean `Ex` terms


def rat_of_float(x):
    """read a float as the simplest rational within 2 ulp (180.0 -> 180, 1e-3 -> 1/1000, 0.333.. -> 1/3)"""
    if x == 0:
        return fractions.Fraction(0)
    exact = fractions.Fraction(x)
    for lim in (10**3, 10**6, 10**9, 10**12):
        cand = exact.limit_denominator(lim)
        if abs(cand - exact) <= abs(exact) * 4.5e-16:
            return cand
    return exact


def lean_rat(q):
    if q.denominator == 1:
        body = f"{q.numerator}" if q.numerator >= 0 else f"({q.numerator})"
        return f"(.const {body})"
    return f"(.const (({q.numerator} : Rat) / {q.denominator}))"


def emit(e, varidx):
    op, a = e.op, e.args
    if op == "const":
        c = a[0]
        re, im = rat_of_float(c.real), rat_of_float(c.imag)
        if im == 0:
            if re == 0:
                return ".zero"
            if re == 1:
                return ".one"
            return lean_rat(re)
        if re == 0:
            if im == 1:
                return ".I"
            return f"(.mul {lean_rat(im)} .I)"
        return f"(.add {lean_rat(re)} (.mul {lean_rat(im)} .I))"
    if op == "var":
        return f"(.var {varidx[a[0]]})"
    if op == "pi":
        return ".pi"
    if op == "pow":
        return f"(.pow {emit(a[0], varidx)} {a[1]})"
    return f"(.{op} " + " ".join(emit(x, varidx) for x in a) + ")"


def size(e):
    if e.op in ("const", "var", "pi"):
        return 1
    if e.op == "pow":
        return 1 + size(e.args[0])
    return 1 + sum(size(x) for x in e.args)


# ---------------------------------------------------------------------------
# numpy proxy and patched module globals


class NPProxy:
    """forwards to numpy, except array creation (object dtype) and pi (a symbol)"""

    pi = PI
    complex128 = object
    newaxis = None

    def __init__(self, allclose_answer=None):
        self._allclose_answer = allclose_answer
        self.allclose_calls = 0

    def __getattr__(self, name):
        return getattr(np, name)

    @staticmethod
    def isscalar(x):
        return isinstance(x, Sym) or np.isscalar(x)

    @staticmethod
    def _numeric(x):
        """numeric (complex) array of an object array of plain numbers / constant nodes; None when symbolic"""
        arr = np.asarray(x, dtype=object)
        out = np.empty(arr.shape, dtype=complex)
        for idx in np.ndindex(arr.shape):
            e = arr[idx]
            if isinstance(e, Sym):
                e = simp(e)
                if not is_const(e):
                    return None
                e = e.args[0]
            out[idx] = complex(e)
        return out

    def angle(self, x, deg=False):
        v = self._numeric(x)
        if v is None:
            raise TypeError("angle of a symbolic array")
        return np.angle(v, deg=deg)

    def max(self, x, *a, **kw):
        v = self._numeric(x)
        if v is None or np.any(v.imag != 0):
            return np.max(x, *a, **kw)
        return np.max(v.real, *a, **kw)

    @staticmethod
    def _obj(shape):
        a = np.empty(shape, dtype=object)
        a[...] = Sym("const", 0j)
        return a

    def ndarray(self, shape, dtype=None):
        return self._obj(shape)

    def zeros(self, shape, dtype=None):
        return self._obj(shape)

    def atleast_1d(self, x):
        return np.atleast_1d(np.asarray(x, dtype=object))

    def atleast_2d(self, x):
        return np.atleast_2d(np.asarray(x, dtype=object))

    def asarray(self, x, dtype=None):
        return np.asarray(x, dtype=object)

    def allclose(self, a, b, **kw):
        def numeric(x):
            arr = np.asarray(x, dtype=object)
            out = np.empty(arr.shape, dtype=complex)
            for idx in np.ndindex(arr.shape):
                e = simp(arr[idx])
                if not is_const(e):
                    return None
                out[idx] = e.args[0]
            return out

        na, nb = numeric(a), numeric(b)
        if na is None or nb is None:
            self.allclose_calls += 1
            if self._allclose_answer is None:
                raise RuntimeError("data-dependent branch (allclose) on symbolic value")
            return self._allclose_answer
        return np.allclose(na, nb, **kw)


def patched(mod, proxy, extra=None):
    """copy of the module globals where np is the proxy and every function defined in
    the module is rebuilt (same code object) over these globals"""
    g = dict(mod.__dict__)
    g["np"] = proxy
    if extra:
        g.update(extra)
    for name, f in list(g.items()):
        if isinstance(f, types.FunctionType) and f.__module__ == mod.__name__:
            g[name] = types.FunctionType(f.__code__, g, name, f.__defaults__, f.__closure__)
            g[name].__kwdefaults__ = f.__kwdefaults__
    return g


class CommonProxy:
    """epgpy.common with get_array_module() returning the numpy proxy"""

    def __init__(self, common, proxy):
        self._c = common
        self._p = proxy

    def __getattr__(self, name):
        return getattr(self._c, name)

    def get_array_module(self, *a):
        return self._p
