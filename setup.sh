#!/bin/sh
# MANIFEST.setup_cmd: build the framework offline from files on disk only.
set -e
cd "$(dirname "$0")"
/venv/bin/python harness/translate/translate.py --meta work/gen_meta.json 2>/dev/null || { mkdir -p work; /venv/bin/python harness/translate/translate.py --meta work/gen_meta.json; }
cd lean
lake build driver EpgVerif
